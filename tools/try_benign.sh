#!/bin/bash
# usage: tools/try_benign.sh <worktree> [check ids...]  -- run the quick tier of every check against a property-preserving
# change living uncommitted in a scratch worktree (via PYTHONPATH, evidence redirected): every check must stay silent
wt=$(readlink -f "$1"); shift
checks=${@:-C01 C02 C03 C04 C05 C06 C07 C08 C09 C10 C11 C12 C13 C14 C15 C16 C17 C18 C19 C20}
echo "== diffstat: $(git -C $wt diff --stat | tail -1)"
echo "== tests with change: $(cd $wt && PYTHONPATH=$wt /venv/bin/python -m pytest -q -p no:cacheprovider 2>&1 | tail -1)"
cd /verif
for c in $checks; do
  out=$(PYTHONPATH=$wt VERIF_EVIDENCE_DIR=/dev/shm/try_evidence VERIF_REPLAY_DIR=/dev/shm/try_replays timeout 3000 ./check "$c" --tier ${TIER:-quick} 2>&1); rc=$?
  echo "== $c rc=$rc; $(echo "$out" | tail -1 | cut -c1-200)"
  [ $rc -ne 0 ] && echo "$out" | grep -A2 '^VIOLATION\|HARNESS' | grep -v '^--' | cut -c1-400 | head -8
done
