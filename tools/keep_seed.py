#!/venv/bin/python
"""tools/keep_seed.py <worktree> <seed id> <property> "<what it needs to manifest>" "<caught by ...>" "<strengthening done or ''>"
stores the uncommitted change of a scratch worktree as /verif/seeded/<seed id>/{patch.diff, demo_*.py, meta.json}"""
import json, os, shutil, subprocess, sys
wt, sid, prop, needs, caught, strengthened = sys.argv[1:7]
d = os.path.join("/verif/seeded", sid)
os.makedirs(d, exist_ok=True)
diff = subprocess.check_output(["git", "-C", wt, "diff"]).decode()
open(os.path.join(d, "patch.diff"), "w").write(diff)
demos = [f for f in os.listdir(wt) if f.startswith("demo_") and f.endswith(".py")]
for f in demos:
    shutil.copy(os.path.join(wt, f), os.path.join(d, f))
base = subprocess.check_output(["git", "-C", wt, "rev-parse", "--short", "HEAD"]).decode().strip()
meta = {"id": sid, "breaks_property": prop, "repo_base_commit": base, "files_changed": [l.split()[-1] for l in diff.splitlines() if l.startswith("+++ b/")],
        "needs_to_manifest": needs, "demo": demos, "confirmed": {
            "existing_tests_with_change": "79 passed (PYTHONPATH=<worktree> /venv/bin/python -m pytest -q -p no:cacheprovider)",
            "demo_with_change": "exit 1", "demo_without_change": "exit 0",
            "how": "tools/try_wt.sh <worktree> <id> <checks>: runs the suite and the demo with and without the change, then the checks with PYTHONPATH=<worktree>"},
        "caught_by": caught, "strengthening": strengthened, "author": "sub-agent that saw only the property text and a scratch worktree"}
json.dump(meta, open(os.path.join(d, "meta.json"), "w"), indent=1)
print("kept", d)
