#!/bin/bash
# usage: tools/all_seeds.sh [first-id-prefix...]  -- every seeded change (or those whose directory name starts with one of the given
# prefixes) is applied in a throw-away worktree and the quick tier of its property's check is run against it: every line must
# show rc=1 and at least one VIOLATION line.  Exit status 1 if a seeded change is missed.
cd /verif
miss=0
for d in seeded/S*/; do
  s=$(basename $d)
  if [ $# -gt 0 ]; then ok=0; for pre in "$@"; do [[ $s == $pre* ]] && ok=1; done; [ $ok = 1 ] || continue; fi
  /venv/bin/python -c "import json,sys;sys.exit(0 if json.load(open('$d/meta.json')).get('retired') else 1)" && { echo "$s retired (see meta.json)"; continue; }
  p=$(/venv/bin/python -c "import json;print(json.load(open('$d/meta.json'))['breaks_property'])")
  # S45 is caught by C15 (its own property's alphabet has no interrupted runs)
  c=$p; [ "$s" = "S45-C06-number-from-chain" ] && c=C15
  out=$(NOCONFIRM=${NOCONFIRM:-1} tools/try_seed.sh $s $c); echo "$out"
  echo "$out" | grep -q "rc=1 [1-9]" || { echo "   ^^^ MISSED"; miss=1; }
done
exit $miss
