#!/bin/bash
# usage: tools/eval_wave.sh <wave prefix, e.g. w8> [property ids...]  -- for every scratch worktree /tmp/wt/<wave>_<Cxx> whose author
# has delivered /tmp/wt/out_<wave>_<Cxx>/demo.py: confirm it (tests, demo with / without the change) and run the property's check
w=$1; shift
cd /verif
for p in ${@:-C01 C02 C03 C04 C05 C06 C07 C08 C09 C10 C11 C12 C13 C14 C15 C16 C17 C18 C19 C20}; do
  wt=/tmp/wt/${w}_$p; out=/tmp/wt/out_${w}_$p
  [ -f $out/demo.py ] || { echo "#### $p (nothing delivered yet)"; continue; }
  cp $out/demo.py $wt/demo_${w}_$p.py
  echo "#### $p"
  tools/try_wt.sh $wt ${w}_$p $p 2>&1 | cut -c1-330
done
