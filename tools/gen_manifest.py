#!/venv/bin/python
"""regenerates MANIFEST.json from the table below (keeps it valid while checks are added)"""
import json, os, sys
HERE = os.path.dirname(os.path.dirname(os.path.abspath(__file__)))
ALL = ["C%02d" % i for i in range(1, 21)]
BASE_OFF = "cd /repo && env -u ASCMHL_VERIF /venv/bin/python -m pytest -ra -q -p no:cacheprovider --timeout=900 --continue-on-collection-errors"
T = "in-process CliRunner on tmpfs as accelerator, every alarm re-run in one fresh subprocess per command; CPython, hashlib, xxhash, lxml/libxml2 trusted; bounds and alphabets as listed in the evidence file"
CHECKS = {
 "C20": ("E4", "model_checking", "stateless exploration of all interleavings of the real Updater thread and the real CLI callback under a controlled line-level scheduler (preemption-bounded, then unbounded) x enumerated server behaviours",
         "The real threads are run one source line at a time under a baton; every schedule up to the preemption bound (thorough: all schedules) is executed for 17 server behaviours (the arrival of the answer and the expiry of the join timeout are scheduler-controlled environment events with a virtual clock) and 4-5 commands; exit code, stdout, virtual blocking time and deadlock freedom are judged per execution, and a separate free-running pass with real threads measures real stall time.", "4 C20"),
 "C13": ("E4", "model_checking", "exhaustive enumeration of mount locations x invocation forms and of all directory-listing permutations (os.listdir/os.scandir seam) on the real code, byte comparison with a baseline",
         "The same tree is sealed under nine kinds of ancestor folders (incl. names matching ignore patterns, glob / format characters, a deep location) x seven invocation forms (absolute, trailing separator, relative, '.', through a symbolic link, <link>/../<name>), and under every combination of permutations of every directory listing; the produced ascmhl folders must be byte-identical to the baseline and the baseline's sealed tree must verify at every location.", "4 C13"),
 "C15": ("E3", "fault_enumeration", "exhaustive crash-point enumeration on the logged write history of the real create (every log prefix, torn last write, lost buffers, two kills in a row) plus an interruption from inside (KeyboardInterrupt) at every logged operation, recovery by the real commands",
         "One uninterrupted create per scenario is executed with a write-logging seam (cross-checked against audit events and by replaying the log); every prefix of the log, with the last write torn at several (thorough: all) positions, is materialised as a crash state and recovered with info, verify and create; old manifests, chain entries, visibility of partial files, exit codes (must equal the answer before or after the completed run) and the C06 relation after recovery are judged.", "4 C15"),
 "C05": ("E3", "fault_enumeration", "exhaustive enumeration of tamper faults (every manifest x edit kind x position) x every history-reading command on the real code",
         "For flat and nested (2 and 3 level) histories every manifest listed in any chain is flipped / grown / shrunk / truncated at enumerated positions (thorough: a bit flip at every byte), gets a newline appended or is removed, and every chain file is removed; each of 12 history-reading commands must answer with exactly 31 / 33 / 32 and leave a byte- and metadata-identical tree.", "4 C05"),
 "C16": ("E2", "exploration", "exhaustive enumeration of the finite product zone x now x mtime x size on the real code under a TZ + virtual-clock seam",
         "For 13 zones (thorough: every zone of the system tz database with a transition in the test year) the current time and the file time each range over mid-winter, mid-summer and one second before/after every transition; every combination is sealed with the real create and each recorded size, date (ISO-8601 grammar, true instant, offset in force at that instant per zoneinfo) and the UTC file-name time is checked.", "4 C16"),
 "C10": ("E2", "exploration", "bounded-exhaustive enumeration of model objects (all deviations from a default object in <=2-3 fields) and of all legal code points, on the real writer/reader pair",
         "Every model object that deviates from a default manifest in at most two (thorough: three) fields over per-field alphabets of awkward values, chain files over awkward folder names, and every XML-legal non-control code point as part of a path are written with the tool's writer and read back with the tool's reader and an independent lxml reader; manifests of real command sequences are cross-read as well.", "4 C10"),
 "C01": ("E2", "exploration", "bounded-exhaustive enumeration of the finite product lengths x contents x format sets x entry points on the real code",
         "The only length-dependent code paths are the two 1 MiB read loops; every length class around that boundary, three content families (incl. one that differs in every MiB), every subset of the seven formats in both orders and every entry point (library one-shot / streaming / multi-format, CLI hash, create, verify) are executed and compared with one-shot hashlib/xxhash digests; the C4 text codec is driven with a stub hasher over a structured family of 512-bit values covering every digit length.", "4 C01"),
 "C19": ("E1", "model_checking", "explicit-state BFS on the real code with info / info -sf evaluated as invariants in every state",
         "In every state of two explorations (multi-generation histories with changing formats, failed entries, partial generations; nested chains and prefix-named siblings) info ROOT is compared with the generations and creation dates of every history, and info -sf (with and without root) of every recorded file with the digests recorded in its nearest enclosing history, all read by the independent reader.", "4 C19"),
 "C18": ("E1", "model_checking", "explicit-state BFS over flat histories on the real code; flatten + verify -pl evaluated as an invariant in every state",
         "Every flat history reachable within the bound by creates with changing format sets, partial -sf generations and alter/restore/add/remove edits is flattened; the packing list is compared with the summary computed from the on-disk manifests by the independent reader, the source tree is compared byte-wise, and verify -pl is run on the tree as it is and after tampering with each file.", "4 C18"),
 "C17": ("E1", "model_checking", "bounded-exhaustive exploration: sealed base x every rename assignment x command sequences on the real code",
         "For a sealed tree every assignment of each file to {stay, rename, move, move+rename, (move into a new folder)} is applied, with one/two-generation and nested histories, equal and different formats, an unrelated new file, and chained renames over 2-3 generations; plain create, create -dr, the follow-up verify/diff/create and verify after altering each renamed file are executed and judged.", "4 C17"),
 "C12": ("E1", "model_checking", "explicit-state BFS of the real file-system state graph with audit-event observation, own pattern matcher + reference directory hashes as oracle",
         "Every sequence up to the bound of creates with every pattern set of the alphabet (plain names, globs, directory-only, anchored, negated, case variants, backslash escapes, a pattern with a blank; via -i, repeated -i, -ii), create -sf of folders, creates at a nested root, edits of ignored/matching files and verify / verify -dh / diff with and without extra patterns is executed; ignored paths must be in no new record, never opened, in no directory hash and never reported, and pattern lists may only grow and must propagate to nested generations.", "4 C12"),
 "C14": ("E1", "model_checking", "command matrix x state matrix plus whole BFS explorations on the real code, full metadata snapshot + audit-event oracle",
         "Every command form is run on every kind of state (no history, flat, nested, tampered, missing/altered/new file) with cwd and TMPDIR pointing at snapshotted empty directories, and the same oracle runs as an invariant over every transition of the C06 and C08 explorations: read-only commands change nothing and issue no write-type operation, flatten changes only its destination, create changes only new manifests / chain files / new ascmhl folders of in-scope histories.", "4 C14"),
 "C11": ("E1", "model_checking", "explicit-state BFS over the option matrix of create/flatten on the real code, XSD validation of every written file as invariant",
         "From four base trees every command sequence up to the bound over the create option matrix (format sets incl. repeated, -n, -dr, -i, -ii, creator options, -sf into nested histories, nested creates), edits that lead to exit 10/11 and flatten (first/repeated) is executed; each file written by each transition is validated against the XSD shipped in the repository.", "4 C11"),
 "C09": ("E1", "model_checking", "bounded-exhaustive exploration: sealed base states x all single/pair mutations -> verify -dh on the real code",
         "Sealed histories of every kind the property names (flat folder without sub-directories, nested with equal/different formats, several generations/formats, -n generations) are mutated by every single change at every depth (thorough: every pair, explicit -h) and verify -dh is run on each state: 0 when unchanged, 12 when changed, never an internal error.", "4 C09"),
 "C03": ("E1", "model_checking", "bounded-exhaustive exploration: sealed base states x all single/pair mutations x {verify, diff, create} on the real code",
         "Eleven kinds of sealed histories are built with the real tool; every single mutation of every entry and every pair (triples on the flat base in thorough) is applied and verify, diff and create are run on each mutated state; the expected exit-code class and the paths that must be named are derived from the tree difference alone.", "4 C03"),
 "C08": ("E1", "model_checking", "explicit-state BFS of the real file-system state graph (real create per transition, relational oracle + audit-event order)",
         "Every command sequence up to the bound over creates at each of the (prefix-named, chained) directories, top-level create / create -n and create -sf of each file is executed, which yields every subset of nested roots in every creation order; each create is judged for routing, child root hash, references, commit order and the set of histories that get a generation.", "4 C08"),
 "C07": ("E1", "model_checking", "bounded-exhaustive exploration of trees x format sets x edits on the real code, reference recursion as oracle",
         "All parent-closed trees up to a size bound x each single format and all six together (thorough: all 63 subsets on a rich tree) are sealed by the real create, optionally with a nested child at every directory, reversed listing order or ignored entries present; every recorded and every printed (verify -dh -co) directory/root hash is compared with an independent 12-line implementation of the definition, and in-place renames / content edits are checked metamorphically.", "4 C07"),
 "C06": ("E1", "model_checking", "explicit-state BFS of the real file-system state graph (real create per transition, relational oracle)",
         "Every sequence of up to 4-5 create / create -sf / nested create commands interleaved with delete/alter/add edits, under an advancing and a frozen clock, is executed; after each one the append-only, numbering, naming and chain relations are evaluated on the bytes on disk and the tool's loader is run on the result.", "4 C06"),
 "C02": ("E1", "model_checking", "explicit-state BFS of the real file-system state graph (real create per transition, relational oracle)",
         "All parent-closed trees up to a size bound over a pool of awkward names, every create form (format sets, -n, nested, every -sf selection of <=2 entries) and add/remove edits up to a generation bound; the records written by each run are compared with the tree on disk. Exhaustive inside the bounds.", "4 C02"),
 "C04": ("E1", "model_checking", "explicit-state BFS of the real file-system state graph (real create per transition, relational oracle)",
         "Every sequence of up to 3-4 generations over every non-empty subset of the format alphabet, with alter/restore of the tracked file, in folder, -sf and nested mode, is executed on the real code and judged against the on-disk history by an independent reader. Exhaustive inside the stated bounds, nothing beyond them.", "4 C04"),
}
NA_REASON = "not claimed"

def main():
    checks = []
    for pid in ALL:
        if pid not in CHECKS:
            continue
        eng, lvl, tech, text, ref = CHECKS[pid]
        checks.append({
            "property_id": pid,
            "quick_cmd": f"./check {pid} --tier quick",
            "thorough_cmd": f"./check {pid} --tier thorough",
            "evidence_file": f"/verif/evidence/{pid}.json",
            "replay_cmd_template": f"./check {pid} --replay {{path}}",
            "engine": eng,
            "level_claimed": {"category": lvl, "text": text, "design_ref": "DESIGN.md section " + ref},
            "level_note": T,
            "technique": tech,
        })
    m = {
        "version": 1,
        "setup_cmd": "/venv/bin/python -c \"import ascmhl, lxml, xxhash, click, pathspec; print('ok')\" && chmod +x /verif/check",
        "hooks": {"guard": "ASCMHL_VERIF", "enable": "none needed: every seam is installed by the harness at run time (DESIGN.md section 7); checks import ascmhl editable from /repo's working tree",
                  "baseline_off_cmd": BASE_OFF, "source_commits": [], "add_only": True},
        "engines": [
            {"name": "E1", "path": "mc/engine.py", "serves_properties": ["C02","C03","C04","C06","C07","C08","C09","C11","C12","C14","C17","C18","C19"], "kind_free_text": "explicit-state BFS over real file-system states, transitions executed by the real CLI commands"},
            {"name": "E2", "path": "mc/engine.py", "serves_properties": ["C01","C10","C16"], "kind_free_text": "bounded-exhaustive enumeration of inputs/configurations on the real code"},
            {"name": "E3", "path": "mc/faults.py", "serves_properties": ["C05","C15"], "kind_free_text": "tamper and crash-point enumeration on recorded histories / write logs"},
            {"name": "E4", "path": "mc/sched.py", "serves_properties": ["C13","C20"], "kind_free_text": "controlled thread scheduler (line-level) and listing-order / mount seam"},
        ],
        "checks": checks,
        "not_applicable": [{"property_id": p, "reason": NA_REASON} for p in ALL if p not in CHECKS],
        "notes": "Genuine defects found are listed in known_findings.json (open ones print KNOWN-FINDING lines; fixed ones are 'fix:' commits in /repo).",
    }
    with open(os.path.join(HERE, "MANIFEST.json"), "w") as f:
        json.dump(m, f, indent=1)
    print("checks:", [c["property_id"] for c in checks])

if __name__ == "__main__":
    main()
