#!/bin/bash
# usage: tools/eval_region.sh <ids...>  -- region-directed seeded changes (/tmp/wt/<id> + /tmp/wt/out_<id>/{demo.py,note.txt with PROPERTY=Cxx}):
# confirm each one and run the check of the property its author names
cd /verif
for r in "$@"; do
  wt=/tmp/wt/$r; out=/tmp/wt/out_$r
  [ -f $out/demo.py ] || { echo "#### $r (nothing delivered yet)"; continue; }
  p=$(head -1 $out/note.txt | sed -n 's/^PROPERTY=\(C[0-9][0-9]\).*/\1/p')
  [ -n "$p" ] || { echo "#### $r: no PROPERTY line"; continue; }
  cp $out/demo.py $wt/demo_$r.py
  echo "#### $r $p"
  tools/try_wt.sh $wt $r $p 2>&1 | cut -c1-330
done
