#!/venv/bin/python
"""tools/ext_notes.py - (re)writes, at the end of every per-property section of DESIGN.md, the list of extensions the check
received after the first build, taken from the 'strengthening' fields of seeded/*/meta.json (blocks <!-- EXT-Cxx-BEGIN/END -->)"""
import glob, json, re
s = open("/verif/DESIGN.md").read()
ext = {}
for f in sorted(glob.glob("/verif/seeded/*/meta.json"), key=lambda p: int(re.search(r"/S(\d+)-", p).group(1))):
    m = json.load(open(f))
    t = (m.get("strengthening") or "").strip()
    if not t or t == "-" or t.startswith("see S"):
        continue
    # a strengthening is filed under the property whose check it changed: the first 'Cxx' named in the text, else the seed's own
    own = m["breaks_property"]
    first = re.match(r"^(C\d\d)\b", t)
    ext.setdefault(first.group(1) if first else own, []).append((m["id"].split("-")[0], t))
s = re.sub(r"\n<!-- EXT-(C\d\d)-BEGIN -->.*?<!-- EXT-\1-END -->\n", "\n", s, flags=re.S)
heads = [(mm.start(), mm.group(1)) for mm in re.finditer(r"^### (C\d\d) ", s, flags=re.M)]
end_all = s.index("## 5. Findings")
out, pos = "", 0
for i, (st, pid) in enumerate(heads):
    nxt = heads[i + 1][0] if i + 1 < len(heads) else s.rfind("\n---", st, end_all) if "\n---" in s[st:end_all] else end_all
    out += s[pos:nxt].rstrip("\n") + "\n"
    if ext.get(pid):
        out += f"\n<!-- EXT-{pid}-BEGIN -->\n**Extended after the first build** (each item was prompted by a seeded change the check had missed, see section 10):\n\n"
        out += "".join(f"* ({sid}) {t}\n" for sid, t in ext[pid])
        out += f"<!-- EXT-{pid}-END -->\n"
    out += "\n"
    pos = nxt
out += s[pos:]
open("/verif/DESIGN.md", "w").write(out)
print({k: len(v) for k, v in sorted(ext.items())})
