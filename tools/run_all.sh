#!/bin/bash
# usage: tools/run_all.sh [quick|thorough] [seed]  -- every check once, one summary line each; non-zero exit if any check is not silent
tier=${1:-quick}; seed=${2:-0}; bad=0
cd /verif
for c in C01 C02 C03 C04 C05 C06 C07 C08 C09 C10 C11 C12 C13 C14 C15 C16 C17 C18 C19 C20; do
  out=$(VERIF_SEED=$seed timeout 7200 ./check $c --tier $tier 2>&1); rc=$?
  echo "rc=$rc $(echo "$out" | grep '^\[C' | tail -1)"
  if [ $rc -ne 0 ]; then bad=1; echo "$out" | grep -v '^  File\|^    ' | tail -5 | cut -c1-300; fi
done
exit $bad
