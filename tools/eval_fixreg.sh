#!/bin/bash
# usage: tools/eval_fixreg.sh <ids...>  -- wave 11 ("a later change breaks an earlier fix again"): /tmp/wt/<id> + /tmp/wt/<id>.prop (property id)
# + /tmp/wt/out_<id>/demo.py: confirm and run the property's check
cd /verif
for r in "$@"; do
  wt=/tmp/wt/$r; out=/tmp/wt/out_$r
  [ -f $out/demo.py ] || { echo "#### $r (nothing delivered yet)"; continue; }
  p=$(cat /tmp/wt/$r.prop)
  cp $out/demo.py $wt/demo_$r.py
  echo "#### $r $p"
  tools/try_wt.sh $wt $r $p 2>&1 | cut -c1-330
done
