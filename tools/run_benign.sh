#!/bin/bash
# usage: tools/run_benign.sh [ids...]  -- false-alarm regression: every property-preserving change kept under /verif/benign/<id>/patch.diff
# is applied in a throw-away worktree of /repo HEAD (outside /repo and /verif) and the quick tier of every check is run against it via
# PYTHONPATH; every check must stay silent (rc=0).  Evidence is redirected, /repo's working tree is not touched.
cd /verif
ids=${@:-$(ls benign | grep -v README)}
bad=0
for id in $ids; do
  wt=/tmp/wt/benign_$$_$id
  mkdir -p /tmp/wt
  git -C /repo worktree add -q --detach $wt HEAD || exit 2
  if git -C $wt apply /verif/benign/$id/patch.diff; then
    echo "#### $id"
    tools/try_benign.sh $wt ${CHECKS:-} | tee /dev/shm/run_benign_$$.log
    grep -q 'rc=[^0]' /dev/shm/run_benign_$$.log && bad=1
    rm -f /dev/shm/run_benign_$$.log
  else
    echo "#### $id PATCH DOES NOT APPLY"; bad=1
  fi
  git -C /repo worktree remove --force $wt
done
exit $bad
