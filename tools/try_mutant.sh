#!/bin/bash
# usage: tools/try_mutant.sh <patch.diff> [tier] <check ids...>   -- applies the patch to /repo, runs the repo tests and
# the given checks, and reverts /repo.  Refuses to run when /repo has uncommitted changes.
set -u
P=$(readlink -f "$1"); shift
TIER=quick
if [ "$1" = "quick" ] || [ "$1" = "thorough" ]; then TIER=$1; shift; fi
cd /repo || exit 2
if [ -n "$(git status --porcelain)" ]; then echo "REPO NOT CLEAN"; exit 2; fi
git apply "$P" || { echo "PATCH DOES NOT APPLY"; exit 2; }
trap 'git -C /repo checkout -- . ; git -C /repo clean -fdq' EXIT
echo "== repo tests: $(/venv/bin/python -m pytest -q -p no:cacheprovider -x 2>&1 | tail -1)"
cd /verif
for c in "$@"; do
  out=$(VERIF_EVIDENCE_DIR=/dev/shm/try_evidence VERIF_NOCONFIRM=${NOCONFIRM:-0} timeout 1800 ./check "$c" --tier "$TIER" 2>&1)
  rc=$?
  echo "== $c rc=$rc $(echo "$out" | grep -c '^VIOLATION') violation line(s); $(echo "$out" | tail -1)"
  echo "$out" | grep -A2 '^VIOLATION' | grep -v '^--' | cut -c1-260 | head -9
done
