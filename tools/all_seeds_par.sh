#!/bin/bash
# usage: PAR=4 tools/all_seeds_par.sh [first-id-prefix...]  -- like tools/all_seeds.sh, PAR seeded changes at a time (each in its own
# throw-away worktree); prints one line per seed and "   ^^^ MISSED <seed>" for a seeded change that no check line caught
cd /verif
one() {
  s=$1
  /venv/bin/python -c "import json,sys;sys.exit(0 if json.load(open('seeded/$s/meta.json')).get('retired') else 1)" && { echo "$s retired (see meta.json)"; return; }
  p=$(/venv/bin/python -c "import json;print(json.load(open('seeded/$s/meta.json'))['breaks_property'])")
  c=$p; [ "$s" = "S45-C06-number-from-chain" ] && c=C15
  out=$(NOCONFIRM=${NOCONFIRM:-1} tools/try_seed.sh $s $c); echo "$out"
  echo "$out" | grep -q "rc=1 [1-9]" || echo "   ^^^ MISSED $s"
}
export -f one
ls seeded | grep '^S' | sort -V | while read s; do
  if [ $# -gt 0 ]; then ok=0; for pre in "$@"; do [[ $s == $pre* ]] && ok=1; done; [ $ok = 1 ] || continue; fi
  echo $s
done | xargs -P ${PAR:-4} -I{} bash -c 'one {}'
