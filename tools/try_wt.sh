#!/bin/bash
# usage: tools/try_wt.sh <worktree> <id> <check ids...>  -- confirm a seeded change living uncommitted in a scratch worktree
# (tests pass with it, demo fails with it and passes without it) and run checks against it via PYTHONPATH (no change to /repo)
wt=$(readlink -f "$1"); id=$2; shift 2
cd "$wt" || exit 2
demo=$(ls demo_*.py | head -1)
echo "== diffstat: $(git diff --stat | tail -1)"
echo "== tests with change: $(PYTHONPATH=$wt /venv/bin/python -m pytest -q -p no:cacheprovider 2>&1 | tail -1)"
PYTHONPATH=$wt timeout 600 /venv/bin/python $demo >/dev/null 2>&1; echo "== demo with change rc=$?"
git diff > /tmp/try_wt_$$.patch; git apply -R /tmp/try_wt_$$.patch; PYTHONPATH=$wt timeout 600 /venv/bin/python $demo >/dev/null 2>&1; echo "== demo without change rc=$?"; git apply /tmp/try_wt_$$.patch; rm -f /tmp/try_wt_$$.patch
cd /verif
for c in "$@"; do
  out=$(PYTHONPATH=$wt VERIF_EVIDENCE_DIR=/dev/shm/try_evidence VERIF_NOCONFIRM=${NOCONFIRM:-0} timeout 3000 ./check "$c" --tier ${TIER:-quick} 2>&1); rc=$?
  echo "== $c rc=$rc; $(echo "$out" | tail -1)"
  echo "$out" | grep -A2 '^VIOLATION' | grep -v '^--' | cut -c1-300 | head -6
done
