#!/venv/bin/python
"""rewrites the block between <!-- COVERAGE-BEGIN --> and <!-- COVERAGE-END --> in DESIGN.md from evidence/*.json
(run after the quick suite: the numbers are those of the last run of each check)"""
import glob, json, re
rows = []
for f in sorted(glob.glob("/verif/evidence/C*.json")):
    e = json.load(open(f))
    c = e["coverage"]
    if "states" in c:
        cov = f"{c['states']} states / {c['transitions']} transitions, all executed on the implementation"
    else:
        cov = f"{c['evaluations']} evaluations, {c['distinct_nontrivial']} distinct non-trivial"
    rows.append(f"| {e['property_id']} | {e['level']} | {e['tier']} | {cov} | {len(c.get('distinct_outcomes', {}))} | {e['wall_s']} s |")
block = ("<!-- COVERAGE-BEGIN -->\n| property | level | tier of the last run | covered | distinct outcome classes | wall |\n|---|---|---|---|---|---|\n"
         + "\n".join(rows) + "\n<!-- COVERAGE-END -->")
d = open("/verif/DESIGN.md").read()
if "<!-- COVERAGE-BEGIN -->" in d:
    d = re.sub(r"<!-- COVERAGE-BEGIN -->.*?<!-- COVERAGE-END -->", lambda m: block, d, flags=re.S)
else:
    i = d.index("## 4. Per-property design")
    j = d.index("### C01", i)
    d = d[:j] + ("### 4.0 As built: what the last run of each check covered\n\nThe alphabets, bounds and oracles below were implemented as "
                 "designed unless a paragraph says otherwise; the exact bounds of a run are in its evidence file (`coverage.rule`, "
                 "`coverage.runs`). Measured on the 16-core sandbox:\n\n" + block + "\n\n") + d[j:]
open("/verif/DESIGN.md", "w").write(d)
print(len(rows), "rows")
