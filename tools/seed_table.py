#!/venv/bin/python
"""regenerates seeded/README.md and the table of DESIGN.md section 10 from seeded/*/meta.json"""
import glob, json, os, re
rows = []
for f in sorted(glob.glob("/verif/seeded/*/meta.json")):
    m = json.load(open(f))
    rows.append(m)
head = "| seed | breaks | needs, in order to manifest | caught by | strengthening it prompted |\n|---|---|---|---|---|\n"
body = "".join(f"| `{m['id']}` | {m['breaks_property']} | {m['needs_to_manifest']} | {('RETIRED - ' + m['retired'] + ' Before: ' if m.get('retired') else '') + m['caught_by']} | {m['strengthening'] or '-'} |\n" for m in rows)
txt = ("# Seeded changes\n\nEach directory holds `patch.diff` (against the repository commit named in `meta.json`), the demonstration script of its "
       "author (fails with the change, passes without) and `meta.json`. Every change keeps the 79 repository tests green. None of them is "
       "ever committed to /repo; to try one: `tools/try_mutant.sh seeded/<id>/patch.diff <check ids>` (applies, runs, reverts).\n\n" + head + body)
open("/verif/seeded/README.md", "w").write(txt)
d = open("/verif/DESIGN.md").read()
i = d.index("## 10. Seeded changes")
j = d.find("\n## ", i + 5)   # the sections after 10 stay
rest = d[j:] if j >= 0 else "\n"
d = d[:i] + ("## 10. Seeded changes and which checks catch them\n\nEach entry is a change that keeps the 79 tests green, was written by a sub-agent "
             "that saw only the property text and a scratch worktree (nothing of /verif), and was confirmed by hand: the suite passes with it, "
             "its own demonstration fails with it and passes without it (`tools/try_wt.sh`), and the listed check reports it on every run. "
             "\"after strengthening\" means the check as it stood missed the change and was extended (last column); nothing was loosened.\n\n"
             + head + body + f"\n{len(rows)} seeded changes kept so far: waves 1-8 and 10 were written per property, wave 9 (S91-S106) per source "
             f"region. Over all waves roughly half of the changes were missed by the checks as they stood when the change arrived; every one is "
             f"caught now (`tools/all_seeds.sh`).\n") + rest
open("/verif/DESIGN.md", "w").write(d)
print(len(rows), "seeds")
