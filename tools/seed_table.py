#!/venv/bin/python
"""regenerates seeded/README.md and the table of DESIGN.md section 10 from seeded/*/meta.json"""
import glob, json, os, re
rows = []
for f in sorted(glob.glob("/verif/seeded/*/meta.json")):
    m = json.load(open(f))
    rows.append(m)
head = "| seed | breaks | needs, in order to manifest | caught by | strengthening it prompted |\n|---|---|---|---|---|\n"
body = "".join(f"| `{m['id']}` | {m['breaks_property']} | {m['needs_to_manifest']} | {('RETIRED - ' + m['retired'] + ' Before: ' if m.get('retired') else '') + m['caught_by']} | {m['strengthening'] or '-'} |\n" for m in rows)
txt = ("# Seeded changes\n\nEach directory holds `patch.diff` (against the repository commit named in `meta.json`), the demonstration script of its "
       "author (fails with the change, passes without) and `meta.json`. Every change keeps the 79 repository tests green. None of them is "
       "ever committed to /repo; to try one: `tools/try_mutant.sh seeded/<id>/patch.diff <check ids>` (applies, runs, reverts).\n\n" + head + body)
open("/verif/seeded/README.md", "w").write(txt)
d = open("/verif/DESIGN.md").read()
i = d.index("## 10. Seeded changes")
j = d.find("\n## ", i + 5)   # the sections after 10 stay
rest = d[j:] if j >= 0 else "\n"
d = d[:i] + ("## 10. Seeded changes and which checks catch them\n\nEach entry is a change that keeps the 79 tests green, was written by a sub-agent "
             "that saw only the property text and a scratch worktree (nothing of /verif), and was confirmed by hand: the suite passes with it, "
             "its own demonstration fails with it and passes without it (`tools/try_wt.sh`), and the listed check reports it on every run. "
             "\"after strengthening\" means the check as it stood missed the change and was extended (last column); nothing was loosened.\n\n"
             + head + body + f"\n{len(rows)} seeded changes kept so far, in 18 waves. The authors were steered differently from wave to wave: per property "
             f"(waves 1-8, 10), per source region (9), interactions of two features (11), changes that break an earlier repair again (11), "
             f"options (12), defaults / constants / data-dependent branches (13), numeric and textual boundaries and state that is already on "
             f"disk (14), speed and tidiness - caches, early exits, merged passes (15), robustness and user-friendliness - broad handlers, "
             f"fallbacks, tolerant parsing (16), modernising and porting - pathlib, scandir / glob, f-strings, other element builders (17), performance shortcuts keyed too coarsely and two cooperating sites (18). "
             f"In every wave between half and three quarters of the changes were missed by the checks as they stood when the change "
             f"arrived; after strengthening, every kept change of waves 1-17 is caught on the current /repo HEAD (`tools/all_seeds.sh`, "
             f"`tools/all_seeds_par.sh`), except those marked RETIRED, which a later repair of /repo turned into correct code. "
             f"Wave 18 (S260-S279) arrived in the last hour of the work: S279 makes the C20 check hang instead of reporting (a harness gap: no per-execution horizon for an exception raised in the result callback; listed as not decided); 7 of the other 19 changes are reported (S268 after a new C09 base, S276 after a new C17 layout, S270, S272 after the whole-case confirmation mode was added, S273, S274, S275), the other 12 are OPEN MISSES, marked MISSED in the table with what each needs - they are the next strengthening targets (same-named entries / histories in different places under anchored patterns: S261, S266, S271; nested histories below ignored folders: S264, S278; same-named nested histories sealed in one run: S265; depth-2 nested root after a plain sibling: S267; files over 1 MiB with a changing number of formats: S263; colliding relative paths across histories for diff: S262; two library objects / two commands of one process: S260, S269, S277). Side remarks of the authors about the unchanged code were reproduced and, where genuine, repaired (F25, F27-F30). "
             f"Last full regression (all patches applied to /repo HEAD f5d1260 in throw-away worktrees, quick tier of the seed's own check): "
             f"258 of 258 non-retired seeds reported, 16 of 16 property-preserving patches silent in all 20 checks.\n") + rest
open("/verif/DESIGN.md", "w").write(d)
print(len(rows), "seeds")
