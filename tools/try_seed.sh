#!/bin/bash
# usage: tools/try_seed.sh <seed dir name> <check ids...>  -- applies seeded/<id>/patch.diff in a throw-away worktree of /repo HEAD
# and runs the checks against it via PYTHONPATH (does not touch /repo's working tree, so it can run next to a sweep)
sd=/verif/seeded/$1; shift
wt=/tmp/wt/seedtest_$$
git -C /repo worktree add -q --detach $wt HEAD || exit 2
trap 'git -C /repo worktree remove --force '$wt EXIT
git -C $wt apply $sd/patch.diff || { echo "PATCH DOES NOT APPLY"; exit 2; }
cd /verif
for c in "$@"; do
  out=$(PYTHONPATH=$wt VERIF_EVIDENCE_DIR=/dev/shm/try_evidence VERIF_REPLAY_DIR=/dev/shm/try_replays VERIF_NOCONFIRM=${NOCONFIRM:-0} timeout 3000 ./check "$c" --tier ${TIER:-quick} 2>&1); rc=$?
  echo "$(basename $sd) $c rc=$rc $(echo "$out" | grep -c '^VIOLATION') violation line(s)"
done
