"""
E3b: write-log seam and crash-state enumeration.

record(ctx, tree, op, now)  runs one command on a materialised tree with logging wrappers around
open-for-write / write / flush / close / os.mkdir / os.replace / os.rename / os.remove and returns the ordered
log (paths relative to the scratch root), cross-checked against the audit events so that a write path the
wrappers do not see is a harness error and not a silent gap.

crash_points(log) lists (prefix length, tear) for every prefix of the log; when the last operation of the prefix is
a write, once for each tear position of that write.  apply_log(pre, prefix, tear, lose_buffers) builds the crash
state; with lose_buffers the unflushed data of every file that is still open is lost as well.

Crash model: the process is killed; the file system keeps the effects of the completed operations in program
order plus possibly a prefix of the data of the write in flight.  (Python buffers writes: what reaches the disk
before close() is always a prefix of the stream, which is why every stream prefix up to the tear granularity is
enumerated; after close() the data is complete.)
"""
import builtins
import os

from . import sub, ops
from .engine import HarnessError

DIR = None


class _WFile:
    """file wrapper: events carry the id of the open call, so that a file that is renamed while it is still open
    (and still holds unflushed data) can be followed"""
    _next = [0]

    def __init__(self, log, rel, f):
        self._log, self._rel, self._f = log, rel, f
        _WFile._next[0] += 1
        self.fid = _WFile._next[0]
        self._closed = False

    _tick = staticmethod(lambda: None)
    _intr = None

    def write(self, b):
        it = _WFile._intr
        if it is not None and it.k is not None and not it.fired and len(self._log) == it.k and it.tear:
            it.fired = True      # part of this write makes it, then the interrupt arrives
            self._log.append(("write", self._rel, bytes(b[:it.tear]), self.fid))
            self._f.write(b[:it.tear])
            raise KeyboardInterrupt()
        _WFile._tick()
        self._log.append(("write", self._rel, bytes(b), self.fid))
        return self._f.write(b)

    def flush(self):
        _WFile._tick()
        self._log.append(("flush", self._rel, self.fid))
        return self._f.flush()

    def seek(self, *a):
        pos = self._f.seek(*a)
        self._log.append(("seek", self._rel, pos, self.fid))
        return pos

    def truncate(self, *a):
        size = self._f.truncate(*a)
        self._log.append(("truncate", self._rel, size, self.fid))
        return size

    def close(self):
        if not self._closed:
            self._closed = True
            self._log.append(("close", self._rel, self.fid))
        return self._f.close()

    def __enter__(self):
        return self

    def __exit__(self, *a):
        self.close()

    def __getattr__(self, n):
        return getattr(self._f, n)


class _Interrupt:
    """interrupt_at = (k, tear): the command is interrupted from inside, the way Ctrl-C does it - KeyboardInterrupt is raised
    when it is about to perform its (k+1)-th logged operation (tear: after that many bytes of that write) and the
    interpreter unwinds normally: finally blocks, context managers and buffered files do what they do"""

    def __init__(self, at):
        self.k, self.tear = (at if at is not None else (None, None))
        self.fired = False


def record(ctx, tree, op, now, interrupt_at=None):
    root = ctx.root
    sub.materialise(root, tree)
    log = []
    intr = _Interrupt(interrupt_at)

    def tick():
        if intr.k is not None and not intr.fired and len(log) == intr.k:
            intr.fired = True
            raise KeyboardInterrupt()
    _WFile._tick = staticmethod(tick)
    _WFile._intr = intr
    ropen, rmkdir, rreplace, rrename, rremove, runlink = builtins.open, os.mkdir, os.replace, os.rename, os.remove, os.unlink
    import shutil
    fast = getattr(shutil, "_USE_CP_SENDFILE", None)   # file copies go through read / write (and so through the log)

    def rel(p):
        p = os.path.abspath(os.fspath(p))
        return p[len(root) + 1:] if p.startswith(root + "/") else None

    def lopen(path, mode="r", *a, **k):
        if isinstance(path, (str, bytes, os.PathLike)) and rel(path) is not None and any(c in mode for c in "wax+"):
            tick()
        try:
            f = ropen(path, mode, *a, **k)
        except OSError:
            r = rel(path) if isinstance(path, (str, bytes, os.PathLike)) else None
            if r is not None and any(c in mode for c in "wax+"):
                log.append(("open-failed", r, mode))   # (the audit hook sees the attempt; nothing reached the disk)
            raise
        r = rel(path) if isinstance(path, (str, bytes, os.PathLike)) else None
        if r is not None and any(c in mode for c in "wax+"):
            w = _WFile(log, r, f)
            log.append(("open", r, mode, w.fid))
            return w
        return f

    def lmkdir(p, *a, **k):
        if rel(p) is not None:
            tick()
        res = rmkdir(p, *a, **k)
        if rel(p) is not None:
            log.append(("mkdir", rel(p)))
        return res

    def lreplace(a, b, *x, **k):
        if rel(a) is not None or rel(b) is not None:
            tick()
        res = rreplace(a, b, *x, **k)
        if rel(a) is not None or rel(b) is not None:
            log.append(("replace", rel(a), rel(b)))
        return res

    def lrename(a, b, *x, **k):
        if rel(a) is not None or rel(b) is not None:
            tick()
        try:
            res = rrename(a, b, *x, **k)
        except OSError:
            log.append(("rename-failed", os.fspath(a), os.fspath(b)))
            raise
        if rel(a) is not None or rel(b) is not None:
            log.append(("replace", rel(a), rel(b)))
        return res

    def lremove(p, *a, **k):
        if rel(p) is not None:
            tick()
        res = rremove(p, *a, **k)
        if rel(p) is not None:
            log.append(("remove", rel(p)))
        return res

    name, args = ops.to_args(op)
    args = ops.expand_args(args, root)
    def lunlink(p, *a, **k):
        if rel(p) is not None:
            tick()
        res = runlink(p, *a, **k)
        if rel(p) is not None:
            log.append(("remove", rel(p)))
        return res

    builtins.open, os.mkdir, os.replace, os.rename, os.remove, os.unlink = lopen, lmkdir, lreplace, lrename, lremove, lunlink
    if fast is not None:
        shutil._USE_CP_SENDFILE = False
    sub.AUDIT.update(on=True, events=[], opens=[], prefix=root)
    try:
        res = sub.run_inproc(name, args, now=now)
    finally:
        sub.AUDIT["on"] = False
        builtins.open, os.mkdir, os.replace, os.rename, os.remove, os.unlink = ropen, rmkdir, rreplace, rrename, rremove, runlink
        if fast is not None:
            shutil._USE_CP_SENDFILE = fast
    _WFile._tick = staticmethod(lambda: None)
    _WFile._intr = None
    final = sub.readback(root)
    if interrupt_at is not None:
        import gc
        gc.collect()             # (files the unwinding left open are closed - and flushed - like at interpreter exit)
        return res, log, sub.readback(root)
    # cross-check: every write-type audit event has its logged twin (same kind, same path, same order per kind)
    aud = []
    failed_renames = [o for o in log if o[0] == "rename-failed"]
    for ev in sub.AUDIT["events"]:
        if ev[0].startswith("shutil.") or ev[0] in ("os.utime", "os.chmod"):
            continue   # composite operations (their parts are logged one by one) and metadata that the tree model does not carry
        if ev[0] in ("os.rename", "os.replace") and failed_renames and (ev[1], ev[2]) == failed_renames[0][1:3]:
            failed_renames.pop(0)   # (the hook sees the attempt; nothing changed on disk)
            continue
        if all(rel(a) is None for a in ev[1:3]):
            continue   # entirely outside the tree (a temporary file elsewhere)
        k = {"open_w": "open", "os.mkdir": "mkdir", "os.replace": "replace", "os.rename": "replace", "os.remove": "remove"}.get(ev[0])
        if k is None:
            raise HarnessError(f"crash seam: unlogged kind of file-system operation {ev}")
        aud.append((k, rel(ev[1])))
    logged = [(o[0].replace("open-failed", "open"), o[1]) for o in log if o[0] in ("open", "open-failed", "mkdir", "replace", "remove")]
    if aud != logged:
        raise HarnessError(f"crash seam: audit events and write log disagree\n audit {aud}\n log   {logged}")
    # and replaying the whole log on the pre-state must give the real final tree
    if apply_log(tree, log, None) != final:
        raise HarnessError("crash seam: replaying the complete log does not reproduce the final tree")
    return res, log, final


def apply_log(tree, prefix, tear, lose_buffers=False):
    """pure: the tree after the operations in prefix; tear = number of bytes of the LAST write that made it.
    Writes happen at the position of their open file (append, overwrite after a seek, truncate are all followed).
    lose_buffers: the kill also loses what the process had written but not yet flushed / closed: every file that is
    still open at the crash point gets back the content it had at its last flush (Python buffers writes; the data
    of an unflushed file is in user space and dies with the process - even if the file was renamed meanwhile)."""
    t = dict(tree)
    cur = {}       # open id -> current path of that file
    pos = {}       # open id -> file position
    flushed = {}   # open id -> content known to be on disk
    for i, o in enumerate(prefix):
        k = o[0]
        if k == "mkdir":
            t[o[1]] = DIR
        elif k == "open":
            if "w" in o[2] or "x" in o[2]:
                t[o[1]] = b""
            else:
                t.setdefault(o[1], b"")
            if len(o) > 3:
                cur[o[3]] = o[1]
                pos[o[3]] = len(t[o[1]]) if "a" in o[2] else 0
                flushed[o[3]] = t[o[1]]
        elif k == "write":
            data = o[2]
            if i == len(prefix) - 1 and tear is not None:
                data = data[:tear]
            fid = o[3] if len(o) > 3 else None
            p = cur.get(fid, o[1])
            old = t.get(p, b"")
            at = pos.get(fid, len(old))
            t[p] = old[:at] + data + old[at + len(data):]
            if fid is not None:
                pos[fid] = at + len(data)
        elif k == "seek":
            pos[o[3]] = o[2]
        elif k == "truncate":
            p = cur.get(o[3], o[1])
            t[p] = t.get(p, b"")[:o[2]]
        elif k == "flush":
            if len(o) > 2 and o[2] in cur:
                flushed[o[2]] = t.get(cur[o[2]], b"")
        elif k == "close":
            if len(o) > 2:
                cur.pop(o[2], None)
                flushed.pop(o[2], None)
                pos.pop(o[2], None)
        elif k == "replace":
            for p in list(t):
                if p == o[1] or p.startswith(o[1] + "/"):
                    t[o[2] + p[len(o[1]):]] = t.pop(p)
            for fid, p in list(cur.items()):
                if p == o[1]:
                    cur[fid] = o[2]
        elif k == "remove":
            t.pop(o[1], None)
    if lose_buffers:
        for fid, p in cur.items():
            if p in t and t[p] is not DIR:
                t[p] = flushed.get(fid, b"")
    return t


def has_open_files(prefix):
    opened = {o[3] for o in prefix if o[0] == "open" and len(o) > 3}
    closed = {o[2] for o in prefix if o[0] == "close" and len(o) > 2}
    return bool(opened - closed)


def crash_points(log, dense_for=None):
    """[(k, tear)] : prefix length and tear of the last write (None = whole operation done)"""
    out = [(0, None)]
    for k in range(1, len(log) + 1):
        o = log[k - 1]
        if o[0] == "write":
            L = len(o[2])
            tears = {1, L // 2, L - 1, L}
            tears |= {x for x in range(0, L, 4096)}
            if dense_for and dense_for(o):
                tears |= set(range(1, L))
            for tr in sorted(x for x in tears if 0 < x <= L):
                out.append((k, tr if tr < L else None))
        else:
            out.append((k, None))
    return out


def label(log, k, tear):
    if k == 0:
        return "before the first operation"
    o = log[k - 1]
    s = f"after op {k}/{len(log)}: {o[0]} {o[1]}" + (f" -> {o[2]}" if o[0] == "replace" else "")
    if o[0] == "write":
        s += f" ({'all' if tear is None else tear} of {len(o[2])} bytes)"
    return s
