"""
Driver shared by all checks: worker pool, violation bookkeeping (known findings, confirmation in
fresh subprocesses, replay artefacts, VIOLATION / KNOWN-FINDING lines), evidence files, and the
generic explicit-state BFS over file-system states (E1).
"""
import hashlib
import json
import multiprocessing as mp
import os
import re
import sys
import time
import traceback

from . import sub, ref

VERIF = sub.VERIF
DIR = None


_CTX = [None]   # the per-process context (worker: its own; main: the local context once created)


class Viol:
    """one oracle failure. kind: short stable class; sig: fields that identify the failing input class
    (used to match known findings); detail: human text; case: JSON-able payload that eval_case replays"""
    __slots__ = ("prop", "kind", "sig", "detail", "case", "base")

    def __init__(self, prop, kind, sig=None, detail="", case=None):
        self.prop, self.kind, self.sig, self.detail, self.case = prop, kind, dict(sig or {}), detail, case
        # the scratch base the failing run used: confirmation and replay re-create exactly this path, because the tool
        # iterates over sets of absolute paths and their order (string hashes) depends on the path text
        self.base = _CTX[0].base if _CTX[0] is not None else None

    def key(self):
        return (self.prop, self.kind, json.dumps(self.sig, sort_keys=True))

    def as_dict(self):
        return {"property": self.prop, "kind": self.kind, "sig": self.sig, "detail": self.detail}


# ---------------------------------------------------------------------------------------------
# worker pool

# every scratch tree lives below a folder whose name holds characters that are special to glob, regular expressions, format
# strings and XML: whatever the tool does with ABSOLUTE paths must treat them as plain text (VERIF_PLAIN_BASE=1 switches it off)
ODD_LOCATION = "" if os.environ.get("VERIF_PLAIN_BASE") else "at [a-b] {0} %s &co"


class Ctx:
    def __init__(self, tag="w", base=None):
        self.top = None
        if base is not None:
            sub.rm(base)
            os.makedirs(base)
        else:
            self.top = sub.new_scratch(tag)
            base = os.path.join(self.top, ODD_LOCATION) if ODD_LOCATION else self.top
            os.makedirs(base, exist_ok=True)
        self.base = base
        self.root = os.path.join(self.base, "root")
        self.run = sub.Runner("in")
        self.n = 0

    def fresh(self, name):
        """a fresh empty directory next to root"""
        p = os.path.join(self.base, name)
        sub.rm(p)
        os.makedirs(p)
        return p

    def close(self):
        sub.rm(self.top or self.base)


_FUNC = {}


def _winit(seed):
    sub.install_seams()
    sub.install_audit()
    _CTX[0] = Ctx()


def _wcall(job):
    modname, fname, item = job
    try:
        f = _FUNC.get((modname, fname))
        if f is None:
            import importlib
            f = getattr(importlib.import_module(modname), fname)
            _FUNC[(modname, fname)] = f
        return ("ok", f(_CTX[0], item))
    except BaseException as e:  # harness error inside a worker: report, never swallow
        return ("err", "".join(traceback.format_exception(type(e), e, e.__traceback__))[-4000:])


def _wchunk(jobs):
    return [_wcall(j) for j in jobs]


class HarnessError(Exception):
    pass


class Engine:
    def __init__(self, prop, tier, seed, level, workers=None):
        self.prop, self.tier, self.seed, self.level = prop, tier, seed, level
        self.t0 = time.time()
        self.workers = workers or int(os.environ.get("VERIF_WORKERS", "0")) or min(16, os.cpu_count() or 4)
        self.pool = None
        self.viols = {}        # key -> [Viol, count]
        self.outcomes = {}     # outcome class -> count
        self.samples = []
        self.notes = {}
        self.caps = []
        self.assumptions = []
        self.local = None
        self.worker_pids = set()

    # -- pool
    def _pool(self):
        if self.pool is None:
            ctx = mp.get_context("fork")
            self.pool = ctx.Pool(self.workers, initializer=_winit, initargs=(self.seed,))
            self.worker_pids |= {p.pid for p in self.pool._pool}
        return self.pool

    def pmap(self, func, items, chunksize=None):
        """parallel map of a module-level function f(ctx, item) over items; yields results in order"""
        items = list(items)
        if not items:
            return []
        job = [(func.__module__, func.__name__, it) for it in items]
        cs = chunksize or max(1, min(64, len(job) // (self.workers * 8) or 1))
        out = []
        chunks = [job[i:i + cs] for i in range(0, len(job), cs)]
        it = self._pool().imap(_wchunk, chunks, 1)
        for _ in range(len(chunks)):
            try:
                res = it.next(timeout=1800)
            except mp.TimeoutError:
                raise HarnessError("worker pool made no progress for 1800 s (lost worker?)")
            for st, r in res:
                if st == "err":
                    raise HarnessError(r)
                out.append(r)
        return out

    def local_ctx(self):
        if self.local is None:
            sub.install_seams()
            sub.install_audit()
            self.local = Ctx("m")
            _CTX[0] = self.local
        return self.local

    def close(self):
        self.shutdown_pool()
        if self.local is not None:
            self.local.close()
        # workers cannot clean up after themselves: remove the scratch directories of this run's processes (and only
        # those - another check may be running at the same time), plus leftovers of dead processes older than two hours
        base = sub.shm_base()
        own = {str(os.getpid())} | {str(p) for p in self.worker_pids}
        for n in os.listdir(base):
            if n.startswith("mhlmc."):
                pid = n.split(".")[1]
                p = os.path.join(base, n)
                try:
                    stale = not os.path.exists(f"/proc/{pid}") and time.time() - os.path.getmtime(p) > 7200
                except OSError:
                    stale = False
                if pid in own or stale:
                    sub.rm(p)

    def shutdown_pool(self):
        if self.pool is not None:
            # graceful shutdown (workers leave on the sentinel); terminate() only as a fallback, and never
            # wait for it indefinitely - scratch directories are removed below either way
            import threading
            pool, self.pool = self.pool, None
            pids = [p.pid for p in getattr(pool, "_pool", [])]

            def _shut():
                try:
                    pool.close()
                    pool.join()
                except Exception:
                    pass
            t = threading.Thread(target=_shut, daemon=True)
            t.start()
            t.join(15)
            if t.is_alive():
                for pid in pids:
                    try:
                        os.kill(pid, 9)
                    except OSError:
                        pass
                time.sleep(0.2)

    # -- bookkeeping
    def outcome(self, cls, n=1):
        cls = str(cls)
        self.outcomes[cls] = self.outcomes.get(cls, 0) + n

    def sample(self, s, limit=6):
        if len(self.samples) < limit:
            self.samples.append(s)

    def add_viols(self, viols):
        for v in viols:
            k = v.key()
            if k in self.viols:
                self.viols[k][1] += 1
            else:
                self.viols[k] = [v, 1]

    # -- finishing: known findings, confirmation, lines, evidence
    def finish(self, coverage, eval_case=None):
        from . import findings
        self.shutdown_pool()   # the workers' scratch paths are re-used by the confirmation runs
        known = findings.load()
        lines = []
        n_viol = 0
        seen_known = {}
        unconfirmed = 0
        reported = 0
        not_examined = 0
        for k, (v, cnt) in sorted(self.viols.items(), key=lambda kv: kv[0]):
            f = findings.match(known, v)
            if f is not None:
                seen_known.setdefault(f["id"], [f, 0])[1] += cnt
                continue
            if reported >= 12:   # enough replayable alarms; further distinct signatures are only counted
                not_examined += 1
                continue
            # confirm in fresh subprocesses, twice ("the same schedule must fail every time")
            ok = True
            if eval_case is not None and v.case is not None and os.environ.get("VERIF_NOCONFIRM") != "1":
                ok = self._confirm(eval_case, v)
            if not ok:
                unconfirmed += cnt
                continue
            n_viol += 1
            if True:
                path = self._write_replay(v, cnt)
                lines.append(f"VIOLATION property={self.prop} replay={path}")
                lines.append(f"  kind={v.kind} sig={json.dumps(v.sig, sort_keys=True)} count={cnt}")
                lines.append("  " + v.detail.replace("\n", "\n  ")[:1500])
                reported += 1
        for fid, (f, cnt) in sorted(seen_known.items()):
            print(f"KNOWN-FINDING: property={self.prop} {fid} {f['what']} (seen {cnt}x)")
        for ln in lines:
            print(ln)
        wall = time.time() - self.t0
        cov = dict(coverage)
        cov.setdefault("samples", self.samples or ["(none)"])
        cov["distinct_outcomes"] = dict(sorted(self.outcomes.items()))
        cov["known_findings_seen"] = {fid: cnt for fid, (f, cnt) in seen_known.items()}
        cov["unconfirmed_inprocess"] = unconfirmed
        cov["further_violation_signatures_not_examined"] = not_examined
        cov["caps_hit"] = self.caps
        cov["workers"] = self.workers
        cov.update(self.notes)
        ev = {"property_id": self.prop, "tier": self.tier, "seed": self.seed, "level": self.level,
              "coverage": cov, "assumptions": self.assumptions, "wall_s": round(wall, 2), "violations": n_viol}
        write_evidence(self.prop, ev)
        summ = {k: cov[k] for k in ("states", "transitions", "evaluations", "distinct_nontrivial") if k in cov}
        print(f"[{self.prop}] tier={self.tier} seed={self.seed} {summ} outcomes={len(self.outcomes)} "
              f"violations={n_viol} known={sorted(seen_known)} unconfirmed={unconfirmed} wall={wall:.1f}s")
        self.close()
        return 1 if n_viol else 0

    def _confirm(self, eval_case, v):
        self.local_ctx()
        shm = sub.shm_base()
        same_path = v.base and v.base.startswith(os.path.join(shm, "mhlmc.")) and v.base != self.local.base
        ctx = Ctx("c", base=v.base) if same_path else Ctx("c")
        ctx.run = sub.Runner("sub")
        keep = _CTX[0]
        _CTX[0] = ctx
        try:
            per_command = True
            for _ in range(2):
                got = eval_case(ctx, v.case)
                if not any(g.kind == v.kind and g.sig == v.sig for g in got):
                    per_command = False
                    break
            if per_command:
                return True
        finally:
            _CTX[0] = keep
            ctx.close()
        # second mode: the whole case, alone, in one fresh interpreter (state that survives between two commands of one
        # process is invisible to one-process-per-command runs); it has to fail in two separate fresh processes
        if os.environ.get("VERIF_NO_WHOLE_CASE") == "1" or getattr(eval_case, "__module__", None) in (None, "__main__"):
            return False
        import pickle, subprocess, tempfile
        want = [v.kind, json.dumps(v.sig, sort_keys=True)]
        with tempfile.NamedTemporaryFile(prefix="mhlmc.case.", dir=shm, delete=False) as f:
            pickle.dump(v.case, f)
        try:
            for _ in range(2):
                try:
                    r = subprocess.run([sys.executable, "-m", "mc.confirm_proc", eval_case.__module__, f.name,
                                        v.base if same_path else "-"], cwd=VERIF, capture_output=True, text=True, timeout=900,
                                       env=dict(os.environ))
                except subprocess.TimeoutExpired:
                    return False
                line = [l for l in r.stdout.splitlines() if l.startswith("CONFIRM-RESULT ")]
                if r.returncode != 0 or not line or want not in json.loads(line[-1][len("CONFIRM-RESULT "):]):
                    return False
            v.detail = "[reproduced by the whole case alone in a fresh process, not with one process per command] " + v.detail
            return True
        finally:
            os.unlink(f.name)

    def _write_replay(self, v, cnt):
        d = os.environ.get("VERIF_REPLAY_DIR") or os.path.join(VERIF, "replays")
        os.makedirs(d, exist_ok=True)
        blob = json.dumps({"property": self.prop, "kind": v.kind, "sig": v.sig, "detail": v.detail, "count": cnt,
                           "scratch_base": v.base, "case": v.case}, sort_keys=True, indent=1, default=_json_default)
        h = hashlib.sha1((v.kind + json.dumps(v.sig, sort_keys=True)).encode()).hexdigest()[:10]
        path = os.path.join(d, f"{self.prop}-{h}.json")
        with open(path, "w") as f:
            f.write(blob)
        return path


def _json_default(o):
    if isinstance(o, bytes):
        return {"__b64__": __import__("base64").b64encode(o).decode()}
    import datetime as _d
    if isinstance(o, _d.datetime):
        return {"__dt__": o.isoformat()}
    if isinstance(o, (set, frozenset, tuple)):
        return sorted(o) if isinstance(o, (set, frozenset)) else list(o)
    raise TypeError(type(o))


def unjson(o):
    """inverse of _json_default for bytes"""
    if isinstance(o, dict):
        if set(o) == {"__b64__"}:
            return __import__("base64").b64decode(o["__b64__"])
        if set(o) == {"__dt__"}:
            return __import__("datetime").datetime.fromisoformat(o["__dt__"])
        return {k: unjson(v) for k, v in o.items()}
    if isinstance(o, list):
        return [unjson(x) for x in o]
    return o


def write_evidence(prop, ev):
    d = os.environ.get("VERIF_EVIDENCE_DIR") or os.path.join(VERIF, "evidence")   # (tools/try_*.sh redirect it)
    os.makedirs(d, exist_ok=True)
    path = os.path.join(d, f"{prop}.json")
    tmp = path + ".tmp"
    with open(tmp, "w") as f:
        json.dump(ev, f, indent=1, sort_keys=True, default=_json_default)
    os.replace(tmp, path)
    # validate against the schema when the tooling interpreter is around (harness error if invalid)
    schema = "/root/.vp/EVIDENCE.schema.json"
    vt = "/opt/veriftools/pyvenv/bin/python"
    if os.path.exists(schema) and os.path.exists(vt):
        import subprocess
        p = subprocess.run([vt, "-c", "import json,sys,jsonschema; jsonschema.validate(json.load(open(sys.argv[1])),"
                            "json.load(open(sys.argv[2])))", path, schema], capture_output=True, text=True)
        if p.returncode != 0:
            raise HarnessError("evidence does not validate: " + p.stderr[-800:])


# ---------------------------------------------------------------------------------------------
# canonical form of a file-system state

_DATE = re.compile(rb"\d{4}-\d\d-\d\dT\d\d:\d\d:\d\d(?:\.\d+)?(?:[+-]\d\d:\d\d|Z)")
_FNTIME = re.compile(r"_\d{4}-\d\d-\d\d_\d{6}Z\.mhl")
_FNTIMEB = re.compile(rb"_\d{4}-\d\d-\d\d_\d{6}Z\.mhl")
_C4REF = re.compile(rb"<c4>c4[1-9A-HJ-NP-Za-km-z]{88}</c4>")
_TOOLV = re.compile(rb'<tool version="[^"]*">')


def canon(tree):
    """canonical key of a state: media bytes + manifests with dates, file-name times, tool version and
    the c4 of *manifest bytes* (chain entries, references) blanked.  No command's control flow reads
    the dropped fields in untampered states (chain digests always match there), so states with equal
    keys have equal futures up to those fields (DESIGN 3.5)."""
    h = hashlib.sha1()
    for p in sorted(tree):
        v = tree[p]
        if ref.is_in_ascmhl(p) or p.endswith(".mhl"):
            p2 = _FNTIME.sub("_T.mhl", p)
            if v is not DIR:
                v = _DATE.sub(b"D", v)
                v = _FNTIMEB.sub(b"_T.mhl", v)
                v = _C4REF.sub(b"<c4>H</c4>", v) if (p.endswith(".xml") or b"<references>" in v) else v
                v = _TOOLV.sub(b"<tool>", v)
        else:
            p2 = p
        h.update(p2.encode("utf8", "surrogateescape") + b"\0")
        h.update(b"\1" if v is DIR else b"\2" + hashlib.sha1(v).digest())
    return h.hexdigest()


def tree_brief(tree):
    """short human description of a state for samples"""
    out = []
    for p in sorted(tree):
        if ref.is_in_ascmhl(p):
            if p.endswith(".mhl"):
                out.append(p)
            continue
        v = tree[p]
        out.append(p + ("/" if v is DIR else f"={v[:12]!r}"))
    return out


def case_json(case):
    return json.loads(json.dumps(case, default=_json_default))


# ---------------------------------------------------------------------------------------------
# E1: explicit-state breadth-first exploration of the file-system state graph

def bfs(eng, expand, inits, max_depth, label=lambda op: op, state_cap=None):
    """
    inits:  list of (tree, meta, name) initial states
    expand: module-level function f(ctx, (tree, meta, depth)) -> list of transitions
            (op, post_tree, post_meta, viols, outcome); post_tree None = do not continue from there
            (the transition was still executed and judged).  Every transition runs the real code.
    Dedup key = (canon(tree), meta).  Returns dict(states, transitions, max_depth, per_depth).
    """
    seen = set()
    frontier = []
    for tree, meta, name in inits:
        k = (canon(tree), json.dumps(meta, sort_keys=True, default=_json_default))
        if k not in seen:
            seen.add(k)
            frontier.append((tree, meta, [name]))
    transitions = 0
    depth = 0
    per_depth = []
    capped = False
    while frontier and depth < max_depth:
        results = eng.pmap(expand, [(t, m, depth) for t, m, _ in frontier], chunksize=1 if len(frontier) < 256 else 8)
        nxt = []
        for (tree, meta, path), trans in zip(frontier, results):
            for op, post, pmeta, viols, outcome in trans:
                transitions += 1
                eng.outcome(outcome)
                if viols:
                    for v in viols:
                        if v.case is not None and isinstance(v.case, dict):
                            v.case.setdefault("path", path + [label(op)])
                    eng.add_viols(viols)
                if transitions % 997 == 1:
                    eng.sample({"path": path + [label(op)], "outcome": str(outcome)})
                if post is None:
                    continue
                k = (canon(post), json.dumps(pmeta, sort_keys=True, default=_json_default))
                if k in seen:
                    continue
                if state_cap and len(seen) >= state_cap:
                    capped = True
                    continue
                seen.add(k)
                nxt.append((post, pmeta, path + [label(op)]))
        per_depth.append(len(frontier))
        frontier = nxt
        depth += 1
    if capped:
        eng.caps.append(f"state cap {state_cap} hit at depth {depth}")
    return {"states": len(seen), "transitions": transitions, "max_depth": depth, "frontier_per_depth": per_depth,
            "unexpanded_at_bound": len(frontier)}


def scenarios(eng, fn, own_property_covers=None):
    """build scenario states with fn() while collecting scenario failures (a set-up command of the real tool that does
    not give the exit code the scenario needs).  own_property_covers(failure) -> Viol | None turns a failure into a
    violation when the failing step contradicts the check's own property; every other failure only skips that
    scenario (listed in the evidence).  When nothing is left to explore the check stops with a harness error."""
    from . import ops
    with ops.collecting() as fails:
        out = fn()
    fails = list(fails)
    for f in fails:
        v = own_property_covers(f) if own_property_covers else None
        if v is not None:
            eng.add_viols([v])
        else:
            eng.notes.setdefault("skipped_scenarios", []).append(str(f)[:300])
    return out


def selftest(eng):
    """'own every source of nondeterminism, then prove you do': the same short sequence twice in two
    fresh scratch roots must give byte-identical trees; also the reference digests' known answers."""
    ref.self_test()
    ctx = eng.local_ctx()
    outs = []
    for i in range(2):
        base = ctx.fresh(f"st{i}")
        root = os.path.join(base, "root")
        sub.materialise(root, {"a.txt": b"a", "d": DIR, "d/b.txt": b"b", "e": DIR})
        r1 = ctx.run("create", [root + "/d", "-h", "md5"], now=sub.NOW0)
        sub.reset_mtimes(root)
        r2 = ctx.run("create", [root, "-h", "xxh64", "-h", "c4"], now=sub.NOW0 + 1)
        r3 = ctx.run("verify", [root], now=sub.NOW0 + 2)
        outs.append((sub.readback(root), r1.exit, r2.exit, r3.exit, r3.out.replace(base, "")))
        sub.rm(base)
    if outs[0] != outs[1]:   # only determinism is demanded here; wrong results are the oracles' business
        a, b = outs[0][0], outs[1][0]
        diff = [k for k in set(a) | set(b) if a.get(k, 0) != b.get(k, 0)]
        raise HarnessError("nondeterminism not captured (two identical runs gave different trees/results): "
                           + repr([o[1:] for o in outs]) + " differing entries: " + repr(sorted(diff)[:6]))


def replay_file(path, eval_case, prop):
    with open(path) as f:
        j = json.load(f)
    case = unjson(j["case"])
    sub.install_seams()
    sub.install_audit()
    b = j.get("scratch_base")
    ok_base = b and b.startswith(os.path.join(sub.shm_base(), "mhlmc.")) and not os.path.exists(b)
    ctx = Ctx("r", base=b) if ok_base else Ctx("r")
    _CTX[0] = ctx
    ctx.run = sub.Runner("sub")
    try:
        got = eval_case(ctx, case)
    finally:
        ctx.close()
    print(f"replay of {path}: expected kind={j['kind']} sig={json.dumps(j['sig'], sort_keys=True)}")
    hit = False
    for g in got:
        same = g.kind == j["kind"] and g.sig == j["sig"]
        hit |= same
        print(("REPRODUCED " if same else "other      ") + f"kind={g.kind} sig={json.dumps(g.sig, sort_keys=True)}\n  {g.detail}")
    if hit:
        print(f"VIOLATION property={prop} replay={path}")
        return 1
    print("not reproduced")
    return 0
