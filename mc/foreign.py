"""
Histories as ANOTHER (or an older) tool may have written them: schema-valid, but without items the schemas leave optional, or with
dates in another legal lexical form.  rewrite(tree, variant) edits every manifest / chain file of a FLAT history (one root history:
nested references would need their c4 values fixed up the hierarchy) and repairs the chain's c4 entries, so that the result is a
history the tool accepts.  Each variant is validated against the shipped XSDs by the caller's self-check (valid()).
"""
import re

from lxml import etree

from . import ref

VARIANTS = ("no-size", "no-ignore", "no-sequencenr", "z-dates", "fraction-dates", "no-lastmod", "no-hashdate")


def _manifest(b, variant):
    s = b.decode("utf-8")
    if variant == "no-size":
        s = re.sub(r' size="\d+"', "", s)
    elif variant == "no-ignore":
        s = re.sub(r"\n?[ \t]*<ignore>.*?</ignore>", "", s, flags=re.S)
    elif variant == "z-dates":
        s = s.replace("+00:00", "Z")
    elif variant == "fraction-dates":
        s = re.sub(r"(<creationdate>[^<.]*?)(\+\d\d:\d\d</creationdate>)", r"\1.5\2", s)
    elif variant == "no-lastmod":
        s = re.sub(r' lastmodificationdate="[^"]*"', "", s)
    elif variant == "no-hashdate":
        s = re.sub(r' hashdate="[^"]*"', "", s)
    return s.encode("utf-8")


def rewrite(tree, variant):
    t = dict(tree)
    roots = ref.history_roots(t)
    if roots != [""] and list(roots) != [""]:
        raise ValueError("foreign.rewrite handles flat histories only")
    for p, b in list(t.items()):
        if p.startswith("ascmhl/") and p.endswith(".mhl") and b is not None:
            t[p] = _manifest(b, variant)
    chain = t.get("ascmhl/ascmhl_chain.xml")
    if chain is not None:
        s = chain.decode("utf-8")
        if variant == "no-sequencenr":
            s = re.sub(r' sequencenr="\d+"', "", s)

        def fix(m):
            name = m.group(2)
            data = t.get("ascmhl/" + name)
            return m.group(1) + name + m.group(3) + (ref.digest("c4", data) if data is not None else m.group(4)) + m.group(5)
        s = re.sub(r"(<path>)([^<]+)(</path>\s*<c4>)([^<]+)(</c4>)", fix, s)
        t["ascmhl/ascmhl_chain.xml"] = s.encode("utf-8")
    return t


_SCHEMA = {}


def valid(tree):
    """every manifest validates against ASCMHL.xsd and the chain against the directory schema"""
    for p, b in tree.items():
        if b is None or not p.startswith("ascmhl/"):
            continue
        if p.endswith(".mhl"):
            k = "/repo/xsd/ASCMHL.xsd"
        elif p.endswith("ascmhl_chain.xml"):
            k = "/repo/xsd/ASCMHLDirectory__combined.xsd"
        else:
            continue
        if k not in _SCHEMA:
            _SCHEMA[k] = etree.XMLSchema(etree.parse(k))
        if not _SCHEMA[k].validate(etree.fromstring(b)):
            return False
    return True
