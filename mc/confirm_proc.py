"""second confirmation mode: the WHOLE case in one fresh process (python -m mc.confirm_proc <module> <pickled case> <base or ->)
- for defects that need state surviving between two commands of one process (library use, CliRunner, a service). The per-command
subprocess confirmation cannot see those; this one starts from an empty interpreter, runs only the one case and prints the
(kind, sig) pairs of what the oracle reports. Nothing of the exploring process is shared with it."""
import importlib
import json
import os
import pickle
import sys


def main():
    modname, casefile, base = sys.argv[1:4]
    here = os.path.dirname(os.path.dirname(os.path.abspath(__file__)))
    os.chdir(here)
    sys.path.insert(0, here)
    from mc import engine, sub
    sub.install_seams()
    sub.install_audit()
    ctx = engine.Ctx("c", base=None if base == "-" else base)
    engine._CTX[0] = ctx
    try:
        with open(casefile, "rb") as f:
            case = pickle.load(f)
        got = getattr(importlib.import_module(modname), "eval_case")(ctx, case)
        print("CONFIRM-RESULT " + json.dumps([[g.kind, json.dumps(g.sig, sort_keys=True)] for g in got]))
    finally:
        ctx.close()


if __name__ == "__main__":
    main()
    sys.stdout.flush()
    os._exit(0)
