"""one command in a fresh interpreter (confirmation runs): spec on stdin, result JSON after a marker"""
import json
import sys


def main():
    spec = json.loads(sys.stdin.read())
    from mc import sub
    sub.install_seams()
    if spec.get("order") == "reversed":
        sub.ORDER["perm"] = lambda d, names: list(reversed(names))
    elif isinstance(spec.get("order"), dict):
        table = spec["order"]
        sub.ORDER["perm"] = lambda d, names: order_from_table(table, d, names)
    audit = opens = None
    if spec.get("audit_prefix"):
        sub.install_audit()
        sub.AUDIT.update(on=True, events=[], opens=[], prefix=spec["audit_prefix"])
    r = sub.run_inproc(spec["cmd"], spec["args"], now=spec["now"], step=spec.get("step", 0.0))
    if spec.get("audit_prefix"):
        sub.AUDIT["on"] = False
        audit, opens = sub.AUDIT["events"], sub.AUDIT["opens"]
    sys.stdout.write("\n@@RES@@" + json.dumps({"exit": r.exit, "out": r.out, "err": r.err, "exc": r.exc, "tb": r.tb,
                                               "audit": audit, "opens": opens}))


def order_from_table(table, d, names):
    """table: {directory path suffix: [names in the order to return]} (names not listed keep sorted order, last)"""
    import os
    key = None
    for k in table:
        if os.path.abspath(d).endswith("/" + k) or k == "*":
            key = k
    if key is None:
        return names
    perm = table[key]
    return [n for n in perm if n in names] + [n for n in names if n not in perm]


if __name__ == "__main__":
    main()
