"""
Operations on states.  A state is a tree {relpath: bytes|None}.  Ops are JSON-able lists:

  tree edits (pure, applied to the dict):
    ["write", path, bytes]   create or overwrite a file (parents are created)
    ["rm", path]             remove a file or a whole directory
    ["mkdir", path]
    ["mv", src, dst]         rename / move a file or directory (parents of dst are created)
  commands (executed by the real tool on a materialised tree):
    ["cmd", name, args]      args may contain "{root}" which is replaced by the scratch root
"""
import os

from . import sub

DIR = None


def add_parents(tree, path):
    parts = path.split("/")
    for i in range(1, len(parts)):
        tree.setdefault("/".join(parts[:i]), DIR)


def edit(tree, op):
    t = dict(tree)
    k = op[0]
    if k == "write":
        add_parents(t, op[1])
        for q in [q for q in t if q.startswith(op[1] + "/")]:   # the path was a folder: it becomes a file, what was below is gone
            del t[q]
        t[op[1]] = op[2]
    elif k == "rm":
        for p in list(t):
            if p == op[1] or p.startswith(op[1] + "/"):
                del t[p]
    elif k == "mkdir":
        add_parents(t, op[1])
        t[op[1]] = DIR
    elif k == "retype":
        # the entry changes its kind: a file becomes a folder (holding one file), a folder (with all below it) becomes a file
        p = op[1]
        was_dir = t.get(p, 0) is DIR
        for q in list(t):
            if q == p or q.startswith(p + "/"):
                del t[q]
        if was_dir:
            t[p] = b"this was a folder"
        else:
            t[p] = DIR
            t[p + "/inner.bin"] = b"inside what was a file"
    elif k == "mv":
        src, dst = op[1], op[2]
        add_parents(t, dst)
        for p in list(t):
            if p == src or p.startswith(src + "/"):
                t[dst + p[len(src):]] = t.pop(p)
    else:
        raise ValueError(op)
    return t


def is_edit(op):
    return op[0] in ("write", "rm", "mkdir", "mv", "retype")


def rp(rel):
    return "{root}" + ("/" + rel if rel else "")


def root_arg(o):
    """the root folder as the user may spell it: absolute (default), with a trailing separator, with two of them, with a trailing /., as '.' from
    inside, or relative to its parent (the last two need a working directory, see cwd_for); 'symlink': absolute, but through a
    symbolic link to the root folder (run_cmd creates the link and points every path of the command line through it)"""
    sp = o.get("spell") or ("slash" if o.get("slash") else None)
    base = rp(o.get("root", "") or "")
    if sp == "slash":
        return base + "/"
    if sp == "slashslash":
        return base + "//"
    if sp == "slashdot":
        return base + "/."
    if sp == "dot":
        return "."
    if sp == "rel":
        return "./" + ((o.get("root") or "").split("/")[-1] or "root")
    return base


def cwd_for(op, root):
    o = op[1] if len(op) > 1 and isinstance(op[1], dict) else {}
    sp = o.get("spell")
    full = os.path.join(root, o.get("root") or "") if o.get("root") else root
    if sp == "dot":
        return full
    if sp == "rel":
        return os.path.dirname(full)
    return None


def to_args(op):
    """structured command op -> (click command name, argument list with {root} placeholders)

    ["create",  {root, fmts, n, dr, sf:[rel..], i:[pat..], ii:relfile, extra:[..]}]
    ["verify",  {root, dh, co, ro, h, sf:rel, pl:relfile, i, ii, extra}]
    ["diff",    {root, i, ii}]     ["info", {root|None, sf:[rel..], v}]
    ["flatten", {root, dest:rel-or-abs-placeholder, extra}]
    ["hash",    {file, h}]         ["xsd-schema-check", {file, df, xsd}]
    """
    name, o = op[0], op[1]
    a = []
    if name == "create":
        a.append(root_arg(o))
        for f in o.get("fmts", []):
            a += ["-h", f]
        if o.get("n"):
            a.append("-n")
        if o.get("dr"):
            a.append("-dr")
        for p in o.get("sf", []) or []:
            a += ["-sf", rp(p)]
    elif name == "verify":
        a.append(root_arg(o))
        if o.get("dh"):
            a.append("-dh")
        if o.get("co"):
            a.append("-co")
        if o.get("ro"):
            a.append("-ro")
        if o.get("h"):
            a += ["-h", o["h"]]
        if o.get("sf") is not None:
            a += ["-sf", o["sf"] if o.get("sf_raw") else rp(o["sf"])]
        if o.get("pl") is not None:
            a += ["-pl", o["pl"]]
    elif name == "diff":
        a.append(root_arg(o))
    elif name == "info":
        if o.get("root") is not None:
            a.append(root_arg(o))
        for p in o.get("sf", []) or []:
            a += ["-sf", rp(p)]
    elif name == "flatten":
        a += [root_arg(o), o["dest"]]
    elif name == "hash":
        a += [rp(o["file"]), "-h", o["h"]]
    elif name == "xsd-schema-check":
        a.append(rp(o["file"]))
        if o.get("df"):
            a.append("-df")
        if o.get("xsd"):
            a += ["-xsd", o["xsd"]]
    else:
        raise ValueError(op)
    for p in o.get("i", []) or []:
        a += ["-i", p]
    if o.get("ii") is not None:
        a += ["-ii", rp(o["ii"]) if not o["ii"].startswith("/") and not o["ii"].startswith("{") else o["ii"]]
    if o.get("v"):
        a.append("-v")
    a += list(o.get("extra", []) or [])
    return name, a


def expand_args(args, root, **more):
    out = []
    for a in args:
        if isinstance(a, str):
            a = a.replace("{root}", root)
            for k, v in more.items():
                a = a.replace("{" + k + "}", v)
        out.append(a)
    return out


def run_cmd(ctx, tree, op, now, cwd=None, keep=False, mtimes=None, root=None, observe=False, subst=None, order=None, tz=None):
    """materialise tree, run the command op, return (Res, post_tree[, obs])
    observe: also return obs = {meta_pre, meta_post, audit (write-type events), opens (read opens)}"""
    root = root or ctx.root
    if not keep:
        sub.materialise(root, tree, mtimes=mtimes)
    if cwd is None:
        cwd = cwd_for(op, root)
    name, args = to_args(op)
    argroot = root
    if len(op) > 1 and isinstance(op[1], dict) and op[1].get("spell") == "symlink":
        # every path of the command line (root, -sf, -ii) reaches the tree through a symbolic link to the root folder
        # (the link has the folder's own name - manifests are named after the folder as it is addressed - and lives in ln/)
        lndir = os.path.join(os.path.dirname(root), "ln")
        argroot = os.path.join(lndir, os.path.basename(root))
        if os.path.islink(argroot):
            os.remove(argroot)
        elif os.path.lexists(lndir):
            sub.rm(lndir)
        os.makedirs(lndir, exist_ok=True)
        os.symlink(root, argroot)
    if len(op) > 1 and isinstance(op[1], dict) and op[1].get("spell") == "dotdot":
        # the root reached as <link to a folder>/../<name>: the operating system follows the link before it goes up, so this is
        # the root folder itself (the link points at it); collapsing "cur/.." textually would name ln2/<name> instead - a decoy
        # folder that exists and holds a file
        lndir = os.path.join(os.path.dirname(root), "ln2")
        sub.rm(lndir)
        os.makedirs(os.path.join(lndir, os.path.basename(root)))
        with sub.REAL["open"](os.path.join(lndir, os.path.basename(root), "decoy.txt"), "wb") as f:
            f.write(b"not the folder that was named")
        os.symlink(root, os.path.join(lndir, "cur"))
        argroot = os.path.join(lndir, "cur", "..", os.path.basename(root))
    args = expand_args(args, argroot, **(subst or {}))
    if not observe:
        res = ctx.run(name, args, now=now, cwd=cwd, order=order, tz=tz)
        return res, sub.readback(root)
    base = os.path.dirname(root)
    meta_pre = sub.snapshot_meta(base)
    sub.AUDIT.update(on=True, events=[], opens=[], prefix=base)
    try:
        res = ctx.run(name, args, now=now, cwd=cwd, order=order, audit_prefix=base, tz=tz)
    finally:
        sub.AUDIT["on"] = False
    meta_post = sub.snapshot_meta(base)
    obs = {"meta_pre": meta_pre, "meta_post": meta_post, "base": base,
           "audit": list(sub.AUDIT["events"]) if res.audit is None else list(res.audit),
           "opens": list(sub.AUDIT["opens"]) if res.opens is None else list(res.opens)}
    return res, sub.readback(root), obs


def apply(ctx, tree, op, now):
    if is_edit(op):
        return None, edit(tree, op)
    return run_cmd(ctx, tree, op, now)


class ScenarioFailure(Exception):
    def __init__(self, op, res, want, step, tree):
        super().__init__(f"scenario step {step} `{label(op)}` exited {res.exit} (expected {want}) {res.exc or ''} {res.err[-200:]}")
        self.op, self.res, self.want, self.step, self.tree = op, res, want, step, tree


FAILURES = None   # a list while scenario failures are being collected instead of raised


class collecting:
    """with ops.collecting() as fails: ...   - build() returns None for a scenario whose step does not give the expected
    exit code and appends the ScenarioFailure to `fails` (the caller decides whether that is a violation of its own
    property or a scenario it has to skip)"""

    def __enter__(self):
        global FAILURES
        FAILURES = []
        return FAILURES

    def __exit__(self, *a):
        global FAILURES
        FAILURES = None


def build(ctx, tree, oplist, now=sub.NOW0 - 1000, step=10, expect=None):
    """run a list of ops from tree; clock advances by `step` per command. returns final tree.
    expect: optional list of expected exit codes for the command ops"""
    i = 0
    for op in oplist:
        pre = tree
        res, tree = apply(ctx, tree, op, now)
        if res is not None:
            now += step
            if expect is not None:
                if (expect[i] is not None and res.exit != expect[i]) or res.exc:
                    f = ScenarioFailure(op, res, expect[i], i, pre)
                    if FAILURES is None:
                        raise f
                    FAILURES.append(f)
                    return None
                i += 1
    return tree


def create(root="", fmts=("xxh64",), **kw):
    return ["create", dict(root=root, fmts=list(fmts), **kw)]


def label(op):
    if not is_edit(op):
        name, a = to_args(op)
        return name + " " + " ".join(x.replace("{root}", "R") for x in a)
    if op[0] == "write":
        return f"write {op[1]} {op[2][:10]!r}"
    return " ".join(str(x) for x in op)
