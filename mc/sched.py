"""
E4a: controlled scheduler for the real Updater thread and the real CLI result callback.

One execution = reload ascmhl.cli.update + the cli module (the thread is created at import), run one command
through the real click group under a line-level tracer with a baton (exactly one thread runs at a time), a stubbed
requests.get whose answer is an environment event, and a virtual join timeout.  Scheduling points: every source
line of Updater.run / _get_latest_version / needs_update and of the groups' `update` result callback, call and
return of the command function, the (blocking) network wait and the (blocking) join.

explore() enumerates every choice sequence up to a preemption bound (None = all interleavings): replay the prefix,
take choice 0 afterwards, branch on every alternative of every later point.  Replaying a prefix that does not fit
the execution is a hard error.
"""
import importlib
import os
import sys
import threading

WATCH = ("ascmhl/cli/update.py", "ascmhl/cli/ascmhl.py", "ascmhl/cli/ascmhl_debug.py")
FUNCS = ("run", "_get_latest_version", "needs_update", "update")
CMD_FUNCS = ("create", "info", "hash", "verify", "diff", "flatten")


class Kill(BaseException):
    pass


class ReplayDivergence(Exception):
    pass


class Sched:
    def __init__(self, choices, net_ready):
        self.choices = list(choices)
        self.taken = []
        self.points = []       # per decision: (enabled list, running thread still enabled?)
        self.cv = threading.Condition()
        self.current = "main"
        self.state = {"main": "run", "upd": "new"}   # run | blocked_join | blocked_net | done | new
        self.vtime = 0.0
        self.join_timeout = None
        self.net_ready = net_ready
        self.killed = False
        self.deadlock = False
        self.error = None
        self.trace = []
        self.pos = {}          # per thread: label of the line it is about to execute
        self.keys = []         # per decision: abstract state before the decision (for state caching)
        self.shared = lambda: None

    def enabled(self):
        en = [t for t, st in self.state.items() if st == "run"]
        if self.state.get("upd") == "blocked_net" and self.net_ready:
            en.append("net")          # environment: the response arrives
        if self.state.get("main") == "blocked_join":
            if self.state.get("upd") == "done":
                en.append("joinret")
            elif self.join_timeout is not None:
                en.append("timeout")  # environment: the join timeout expires (virtual clock += timeout)
        en.sort(key=lambda x: (x != self.current, x))
        return en

    def point(self, me, label):
        with self.cv:
            if self.killed:      # the execution is over: a thread that is being unwound must not take decisions any more
                raise Kill()     # (line events also fire for `except` clauses while Kill propagates)
            self.trace.append((me, label))
            self.pos[me] = label
            self._dispatch()
            while self.current != me and not self.killed:
                self.cv.wait()
            if self.killed and self.current != me:
                raise Kill()

    def _dispatch(self):
        while True:
            en = self.enabled()
            if not en:
                self.current = None
                self.deadlock = True
                self.killed = True
                self.cv.notify_all()
                return
            if self.choices:
                i = self.choices.pop(0)
                if i >= len(en):
                    self.error = f"replay divergence: choice {i} at a point with enabled {en}"
                    self.current = None
                    self.killed = True
                    self.cv.notify_all()
                    return
            else:
                i = 0
            self.taken.append(i)
            self.points.append((en, en[0] == self.current and self.state.get(self.current) == "run"))
            # abstract state: program counters, scheduler bookkeeping, virtual clock, the shared heap
            self.keys.append((tuple(sorted((k, str(v)) for k, v in self.pos.items())), tuple(sorted(self.state.items())),
                              self.current, self.vtime, self.join_timeout, self.shared()))
            c = en[i]
            if c == "net":
                self.state["upd"] = "run"
                self.trace.append(("env", "response arrives"))
                continue
            if c == "timeout":
                self.vtime += self.join_timeout
                self.state["main"] = "run"
                self.trace.append(("env", "join timeout"))
                continue
            if c == "joinret":
                self.state["main"] = "run"
                continue
            self.current = c
            self.cv.notify_all()
            return


class CoopLock:
    """stands in for threading.Lock / RLock objects that the watched module creates: a thread that has to wait for the lock
    is 'blocked' for the scheduler (another thread is chosen; nobody enabled = deadlock) instead of blocking the harness"""
    _n = [0]

    def __init__(self, S, reentrant=False):
        self.S, self.reentrant = S, reentrant
        self.owner, self.depth = None, 0
        CoopLock._n[0] += 1
        self.name = f"lock{CoopLock._n[0]}"

    def _me(self):
        return "upd" if getattr(threading.current_thread(), "_verif_upd", False) else "main"

    def acquire(self, blocking=True, timeout=-1):
        S, me = self.S, self._me()
        while True:
            with S.cv:
                if S.killed:
                    raise Kill()
                if self.owner is None or (self.reentrant and self.owner == me):
                    self.owner, self.depth = me, self.depth + 1
                    return True
                if not blocking:
                    return False
                S.state[me] = "blocked_lock:" + self.name
            S.point(me, ("lock wait", self.name))

    def release(self):
        S = self.S
        with S.cv:
            self.depth -= 1
            if self.depth <= 0:
                self.owner, self.depth = None, 0
                for t, st in S.state.items():
                    if st == "blocked_lock:" + self.name:
                        S.state[t] = "run"

    def locked(self):
        return self.owner is not None

    __enter__ = acquire

    def __exit__(self, *a):
        self.release()


def run_one(choices, answer, net_ready, group, args):
    """one controlled execution; returns (Sched, click Result, uncaught thread exception or None)"""
    import requests
    from click.testing import CliRunner
    S = Sched(choices, net_ready)
    thread_exc = []

    def who():
        return "upd" if getattr(threading.current_thread(), "_verif_upd", False) else "main"

    def tracer(frame, event, arg):
        fn = frame.f_code.co_filename
        name = frame.f_code.co_name
        if fn.endswith("ascmhl/commands.py") and name in CMD_FUNCS and event == "call":
            S.point(who(), ("call", name))

            def cmdlocal(frame, event, arg):
                if event == "return":
                    S.point(who(), ("return", name))
                return cmdlocal
            return cmdlocal
        if not fn.endswith(WATCH) or name not in FUNCS:
            return None

        def local(frame, event, arg):
            if event == "line":
                S.point(who(), (os.path.basename(fn), frame.f_lineno))
            return local
        return local

    def fake_get(url, **kw):
        S.state["upd"] = "blocked_net"
        S.point("upd", "network wait")
        return answer()

    import ascmhl.cli.update as U
    real_get = requests.get
    requests.get = fake_get
    old_hook = threading.excepthook
    threading.excepthook = lambda a: thread_exc.append(a.exc_type.__name__) if a.exc_type is not Kill else None
    # locks that the watched module creates become cooperative ones (a real lock would block the harness itself)
    real_lock, real_rlock = threading.Lock, threading.RLock

    def lock_factory(reentrant):
        def make(*a, **k):
            caller = sys._getframe(1).f_code.co_filename
            if caller.endswith(WATCH):
                return CoopLock(S, reentrant)
            return (real_rlock if reentrant else real_lock)(*a, **k)
        return make
    threading.Lock, threading.RLock = lock_factory(False), lock_factory(True)
    threading.settrace(tracer)
    sys.settrace(tracer)
    result = None
    try:
        importlib.reload(U)

        def vjoin(self, timeout=None):
            if S.state.get("upd") == "done":
                return
            S.join_timeout = timeout
            S.state["main"] = "blocked_join"
            S.point("main", "join")
        U.Updater.join = vjoin
        orig_run = U.Updater.run

        def run(self):
            threading.current_thread()._verif_upd = True
            with S.cv:
                S.state["upd"] = "run"
                S.cv.notify_all()
                while S.current != "upd" and not S.killed:
                    S.cv.wait()
            try:
                if not S.killed:
                    orig_run(self)
            except Kill:
                pass
            finally:
                with S.cv:
                    S.state["upd"] = "done"
                    if not S.killed:
                        S._dispatch()
        U.Updater.run = run
        # exactly ONE execution of the cli module body (it creates and starts the Updater thread): import it when it
        # is not loaded yet, reload it otherwise - never both
        modname = "ascmhl.cli." + group
        mod = importlib.reload(sys.modules[modname]) if modname in sys.modules else importlib.import_module(modname)
        cli = mod.mhltool_cli if group == "ascmhl" else mod.mhldebugtool_cli
        S.shared = lambda: (repr(getattr(mod.updater, "latest_version", None)), getattr(mod.updater, "finished", None))
        # the thread object exists now (created at import); wait until it has registered with the scheduler,
        # then the first decision: who goes first
        with S.cv:
            for _ in range(5000):
                if S.state["upd"] != "new":
                    break
                S.cv.wait(0.002)
        if S.state["upd"] == "new":
            S.error = "the updater thread never started"
        try:
            S.point("main", "before the command")
            result = CliRunner(mix_stderr=False).invoke(cli, args)
        except Kill:
            result = None
    finally:
        sys.settrace(None)
        threading.settrace(None)
        requests.get = real_get
        threading.excepthook = old_hook
        threading.Lock, threading.RLock = real_lock, real_rlock
        with S.cv:
            S.killed = True
            S.taken, S.points, S.keys, S.trace = list(S.taken), list(S.points), list(S.keys), list(S.trace)
            S.cv.notify_all()
    return S, result, (thread_exc[0] if thread_exc else None)


def explore(answer, net_ready, group, args, bound, judge, cap=None, cache=False):
    """DFS over choice sequences; judge(S, result, thread_exc, choices) -> (violations, outcome key).

    cache=False: stateless, every schedule within the preemption bound is executed.
    cache=True (only with bound=None): stateful - a (abstract state, choice) pair is executed once.  The abstract
    state holds both program counters (next source line of each thread), the scheduler bookkeeping (who is blocked
    on what, whether the response / timeout is pending), the virtual clock and the shared heap (latest_version,
    finished).  Thread-local data is a function of the program counter and these (the response object is fixed per
    exploration; needs_update reads latest_version, which is written once), so equal keys have equal futures.
    returns (executions, violations, outcomes dict, capped, distinct states)"""
    assert not (cache and bound is not None)
    stack = [([], 0)]
    n = 0
    viols = []
    outcomes = {}
    capped = False
    done = set()
    states = set()
    while stack:
        prefix, used = stack.pop()
        S, r, texc = run_one(prefix, answer, net_ready, group, args)
        if S.error:
            raise ReplayDivergence(S.error + f" (prefix {prefix})")
        if S.taken[:len(prefix)] != prefix:
            raise ReplayDivergence(f"prefix {prefix} replayed as {S.taken[:len(prefix)]}")
        n += 1
        vs, key = judge(S, r, texc, list(S.taken))
        viols += vs
        outcomes[key] = outcomes.get(key, 0) + 1
        if cap and n >= cap:
            capped = True
            break
        cost = 0
        costs = []
        for i, (en, running_enabled) in enumerate(S.points):
            costs.append(cost)
            if S.taken[i] != 0 and running_enabled:
                cost += 1
            states.add(S.keys[i])
            if cache:
                done.add((S.keys[i], S.taken[i]))
        for i in range(len(prefix), len(S.points)):
            en, running_enabled = S.points[i]
            for alt in range(1, len(en)):
                c = costs[i] + (1 if running_enabled else 0)
                if bound is not None and c > bound:
                    continue
                if cache:
                    if (S.keys[i], alt) in done:
                        continue
                    done.add((S.keys[i], alt))
                stack.append((S.taken[:i] + [alt], c))
    return n, viols, outcomes, capped, len(states)
