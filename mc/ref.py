"""
Independent reference code (the oracle side).  Nothing in here imports ascmhl.

  * digests          - hashlib / xxhash one-shot over the whole byte string, own C4 codec
  * read_manifest    - lxml DOM + explicit extraction of every field of a manifest
  * read_chain       - chain / collection file
  * dir hashes       - the compositional definition as a short recursion
  * matcher          - ignore semantics for a restricted pattern alphabet (no pathspec)
  * history helpers  - histories of a tree, earliest digest per (path, format), routing
"""
import hashlib
import re
import xxhash
from lxml import etree

FORMATS_CLI = ["c4", "md5", "sha1", "xxh128", "xxh3", "xxh64"]          # sorted
FORMATS_LIB = FORMATS_CLI + ["xxh32"]
DIR = None  # value of a directory in a tree dict

C4_CHARSET = "123456789ABCDEFGHJKLMNPQRSTUVWXYZabcdefghijkmnopqrstuvwxyz"


def c4_encode(raw: bytes) -> str:
    n = int.from_bytes(raw, "big")
    s = ""
    while n:
        n, r = divmod(n, 58)
        s = C4_CHARSET[r] + s
    return "c4" + "1" * (88 - len(s)) + s


def c4_decode(text: str) -> bytes:
    assert len(text) == 90 and text.startswith("c4"), text
    n = 0
    for ch in text[2:]:
        n = n * 58 + C4_CHARSET.index(ch)
    return n.to_bytes(64, "big")


def _raw(fmt: str, data: bytes) -> bytes:
    if fmt == "md5":
        return hashlib.md5(data).digest()
    if fmt == "sha1":
        return hashlib.sha1(data).digest()
    if fmt == "c4":
        return hashlib.sha512(data).digest()
    if fmt == "xxh32":
        return xxhash.xxh32(data).digest()
    if fmt == "xxh64":
        return xxhash.xxh64(data).digest()
    if fmt == "xxh3":
        return xxhash.xxh3_64(data).digest()
    if fmt == "xxh128":
        return xxhash.xxh3_128(data).digest()
    raise KeyError(fmt)


def text_of(fmt: str, raw: bytes) -> str:
    return c4_encode(raw) if fmt == "c4" else raw.hex()


def raw_of(fmt: str, text: str) -> bytes:
    return c4_decode(text) if fmt == "c4" else bytes.fromhex(text)


def digest(fmt: str, data: bytes) -> str:
    return text_of(fmt, _raw(fmt, data))


# known-answer vectors for the empty input: pin the name -> algorithm binding of *this* file
KAT_EMPTY = {
    "md5": "d41d8cd98f00b204e9800998ecf8427e",
    "sha1": "da39a3ee5e6b4b0d3255bfef95601890afd80709",
    "xxh32": "02cc5d05",
    "xxh64": "ef46db3751d8e999",
    "xxh3": "2d06800538d394c2",
    "xxh128": "99aa06d3014798d86001c324468d497f",
    "c4": "c459dsjfscH38cYeXXYogktxf4Cd9ibshE3BHUo6a58hBXmRQdZrAkZzsWcbWtDg5oQstpDuni4Hirj75GEmTc1sFT",
}


def self_test():
    for f, v in KAT_EMPTY.items():
        assert digest(f, b"") == v, (f, digest(f, b""), v)
    for f in FORMATS_LIB:
        d = digest(f, b"abc")
        assert text_of(f, raw_of(f, d)) == d


# ---------------------------------------------------------------------------------------------
# directory hashes (property C07 definition)


def dir_hashes(tree: dict, dirpath: str, fmt: str, excluded=lambda p, isdir: False):
    """(content, structure) text digests of directory `dirpath` ('' = root) in `tree`
    tree: {relpath: bytes | None}; excluded(relpath, isdir) removes entries (and their subtrees)."""
    prefix = dirpath + "/" if dirpath else ""
    content, structure = [], []
    for p, v in tree.items():
        if not p.startswith(prefix) or p == dirpath:
            continue
        rest = p[len(prefix):]
        if "/" in rest or rest == "":
            continue
        isdir = v is DIR
        if excluded(p, isdir):
            continue
        name = rest.encode("utf8")
        if isdir:
            c, s = dir_hashes(tree, p, fmt, excluded)
            content.append(raw_of(fmt, c))
            structure.append(_raw(fmt, name + raw_of(fmt, s)))
        else:
            d = _raw(fmt, v)
            content.append(d)
            structure.append(_raw(fmt, name + d))
    # "taken in sorted order": the tool sorts the *text* digests; for hex that equals byte order,
    # for c4 the fixed-width base-58 text with an ascending alphabet sorts like the number as well.
    content.sort(key=lambda b: text_of(fmt, b))
    structure.sort(key=lambda b: text_of(fmt, b))
    return digest(fmt, b"".join(content)), digest(fmt, b"".join(structure))


# ---------------------------------------------------------------------------------------------
# XML readers

NS = "{urn:ASC:MHL:v2.0}"
NSD = "{urn:ASC:MHL:DIRECTORY:v2.0}"


def _lt(e):
    return e.tag.split("}", 1)[-1] if isinstance(e.tag, str) else None


def _fmt_entries(parent):
    out = []
    for ch in parent:
        t = _lt(ch)
        if t in FORMATS_LIB:
            out.append({"format": t, "digest": ch.text, "action": ch.get("action"), "hashdate": ch.get("hashdate")})
    return out


def read_manifest(data: bytes) -> dict:
    root = etree.fromstring(data)
    assert _lt(root) == "hashlist", root.tag
    m = {
        "version": root.get("version"),
        "creationdate": None, "hostname": None, "tool": None, "tool_version": None,
        "authors": [], "location": None, "comment": None,
        "process": None, "roothash": None, "ignore": None,
        "has_hashes": False, "records": [], "has_references": False, "references": [],
    }
    for sec in root:
        t = _lt(sec)
        if t == "creatorinfo":
            for e in sec:
                et = _lt(e)
                if et == "creationdate":
                    m["creationdate"] = e.text
                elif et == "hostname":
                    m["hostname"] = e.text
                elif et == "tool":
                    m["tool"], m["tool_version"] = e.text, e.get("version")
                elif et == "author":
                    m["authors"].append({"name": e.text, "email": e.get("email"), "phone": e.get("phone"), "role": e.get("role")})
                elif et == "location":
                    m["location"] = e.text
                elif et == "comment":
                    m["comment"] = e.text
        elif t == "processinfo":
            for e in sec:
                et = _lt(e)
                if et == "process":
                    m["process"] = e.text
                elif et == "roothash":
                    rh = {"content": [], "structure": []}
                    for x in e:
                        if _lt(x) in ("content", "structure"):
                            rh[_lt(x)] = _fmt_entries(x)
                    m["roothash"] = rh
                elif et == "ignore":
                    m["ignore"] = [p.text for p in e if _lt(p) == "pattern"]
        elif t == "hashes":
            m["has_hashes"] = True
            for e in sec:
                et = _lt(e)
                if et not in ("hash", "directoryhash"):
                    continue
                rec = {"kind": "file" if et == "hash" else "dir", "path": None, "size": None, "lastmod": None,
                       "hashes": [], "content": [], "structure": [], "previousPath": None}
                for x in e:
                    xt = _lt(x)
                    if xt == "path":
                        rec["path"], rec["size"], rec["lastmod"] = x.text, x.get("size"), x.get("lastmodificationdate")
                    elif xt == "previousPath":
                        rec["previousPath"] = x.text
                    elif xt in ("content", "structure"):
                        rec[xt] = _fmt_entries(x)
                if et == "hash":
                    rec["hashes"] = _fmt_entries(e)
                m["records"].append(rec)
        elif t == "references":
            m["has_references"] = True
            for e in sec:
                if _lt(e) == "hashlistreference":
                    r = {"path": None, "c4": None}
                    for x in e:
                        if _lt(x) == "path":
                            r["path"] = x.text
                        elif _lt(x) == "c4":
                            r["c4"] = x.text
                    m["references"].append(r)
    return m


def read_chain(data: bytes) -> list:
    root = etree.fromstring(data)
    assert _lt(root) == "ascmhldirectory", root.tag
    out = []
    for e in root:
        if _lt(e) != "hashlist":
            continue
        g = {"sequencenr": e.get("sequencenr"), "path": None, "c4": None, "other": []}
        for x in e:
            if _lt(x) == "path":
                g["path"] = x.text
            elif _lt(x) == "c4":
                g["c4"] = x.text
            else:
                g["other"].append(_lt(x))
        out.append(g)
    return out


# ---------------------------------------------------------------------------------------------
# trees and histories
#
# A tree is {relpath: bytes | None}: POSIX relative paths, None marks a directory.  Every parent
# directory of an entry is itself an entry.  The root itself is not an entry.

MHL_NAME = re.compile(r"^(\d{4,})_(.*)_(\d{4}-\d\d-\d\d_\d{6}Z)\.mhl$", re.S)


def parent(p):
    return p.rsplit("/", 1)[0] if "/" in p else ""


def is_in_ascmhl(p):
    return "ascmhl" in p.split("/")


def media(tree):
    """the tree without any ascmhl folder"""
    return {p: v for p, v in tree.items() if not is_in_ascmhl(p)}


def history_roots(tree):
    """relative paths ('' = top) of every directory that holds an `ascmhl` folder, sorted"""
    return sorted(parent(p) for p, v in tree.items() if v is DIR and p.split("/")[-1] == "ascmhl"
                  and not is_in_ascmhl(parent(p)))


def generations(tree, hroot=""):
    """manifests of the history rooted at hroot, sorted by generation number parsed from the name"""
    pre = (hroot + "/" if hroot else "") + "ascmhl/"
    out = []
    for p, v in tree.items():
        if v is DIR or not p.startswith(pre) or "/" in p[len(pre):] or not p.endswith(".mhl"):
            continue
        name = p[len(pre):]
        mm = MHL_NAME.match(name)
        if not mm:
            continue
        out.append({"number": int(mm.group(1)), "name": name, "folder": mm.group(2), "time": mm.group(3),
                    "path": p, "bytes": v})
    out.sort(key=lambda g: (g["number"], g["name"]))
    return out


def chain_of(tree, hroot=""):
    p = (hroot + "/" if hroot else "") + "ascmhl/ascmhl_chain.xml"
    return tree.get(p)


def history_for_path(roots, relpath):
    """deepest history root (from `roots`) that contains relpath; a history root directory itself
    belongs to its own history (as '.') - callers that want the parent's view pass parent-wise."""
    best = ""
    for r in roots:
        if r == "":
            continue
        if relpath == r or relpath.startswith(r + "/"):
            if len(r) > len(best):
                best = r
    return best


def rel_to(hroot, relpath):
    if hroot == "":
        return relpath
    if relpath == hroot:
        return "."
    assert relpath.startswith(hroot + "/")
    return relpath[len(hroot) + 1:]


def earliest(gens_parsed, path):
    """{format: (digest, generation number)} of the earliest recorded digest per format for a file
    path, and the number of the first generation that records the path; gens_parsed: [(number, manifest)]"""
    first_gen = None
    per = {}
    for num, m in gens_parsed:
        for rec in m["records"]:
            if rec["kind"] != "file" or rec["path"] != path:
                continue
            if first_gen is None:
                first_gen = num
            for h in rec["hashes"]:
                per.setdefault(h["format"], (h["digest"], num))
    return per, first_gen


# ---------------------------------------------------------------------------------------------
# ignore matcher: the gitignore rules, written from their documentation (not from the library the tool uses)
#   NAME, *.EXT      no separator (but a trailing one): matches an entry of that name / glob at any depth
#   NAME/            only directories
#   a/b, /a, a/*.x   a separator at the beginning or in the middle anchors the pattern at the traversal root
#   **/x, a/**, a/**/b   '**' spans directory levels
#   !PATTERN         re-includes; the LAST matching pattern decides
#   \\c               the character c itself (\\[, \\*, a leading \\# or \\!)
# Everything below an excluded directory is excluded as well (the walk never looks inside, so nothing below can be re-included).

DEFAULT_PATTERNS = [".DS_Store", "ascmhl", "ascmhl/"]
_PAT_CACHE = {}


def _segment_regex(seg):
    out, i = "", 0
    while i < len(seg):
        ch = seg[i]
        if ch == "\\" and i + 1 < len(seg):   # a backslash takes the next character literally
            out += re.escape(seg[i + 1])
            i += 2
            continue
        if ch == "*":
            out += "[^/]*"
        elif ch == "?":
            out += "[^/]"
        elif ch == "[" and "]" in seg[i + 2:]:
            j = seg.index("]", i + 2)
            body = seg[i + 1:j]
            if body.startswith("!"):
                body = "^" + body[1:]
            out += "[" + body.replace("\\", "\\\\") + "]"
            i = j
        else:
            out += re.escape(ch)
        i += 1
    return out


def _compile(pat):
    c = _PAT_CACHE.get(pat)
    if c is None:
        body = pat
        neg = body.startswith("!")
        if neg:
            body = body[1:]
        dir_only = body.endswith("/")
        if dir_only:
            body = body[:-1]
        anchored = "/" in body
        if body.startswith("/"):
            body = body[1:]
        segs = body.split("/")
        rx = ""
        for k, sg in enumerate(segs):
            last = k == len(segs) - 1
            if sg == "**":
                if last:
                    rx += ".*"
                else:
                    rx += "(?:[^/]+/)*"
                continue
            rx += _segment_regex(sg)
            if not last:
                rx += "/"
        if not anchored:
            rx = "(?:.*/)?" + rx
        c = _PAT_CACHE[pat] = (neg, dir_only, re.compile("^" + rx + "$", re.S), body == "" or pat.startswith("#"))
    return c


def _decide(patterns, relpath, isdir):
    verdict = False
    for pat in patterns:
        neg, dir_only, rx, skip = _compile(pat)
        if skip or (dir_only and not isdir):
            continue
        if rx.match(relpath):
            verdict = not neg
    return verdict


def ignored(patterns, relpath, isdir):
    """is the entry relpath (relative to the traversal root) excluded by `patterns`?"""
    parts = relpath.split("/")
    for i in range(1, len(parts)):
        if _decide(patterns, "/".join(parts[:i]), True):
            return True
    return _decide(patterns, relpath, isdir)
