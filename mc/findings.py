"""known_findings.json: committed, never written at run time.

entry: {id, property, status: "open"|"fixed", match: {kind: ..., <sig field>: value | [values]}, what}
A violation matches an *open* entry when property and every key of `match` agree (a list means
"one of").  `fixed` entries suppress nothing.
"""
import json
import os

PATH = os.path.join(os.path.dirname(os.path.dirname(os.path.abspath(__file__))), "known_findings.json")


def load():
    if not os.path.exists(PATH):
        return []
    with open(PATH) as f:
        return json.load(f).get("findings", [])


def match(known, v):
    for f in known:
        if f.get("status") != "open" or f.get("property") != v.prop:
            continue
        ok = True
        for k, want in f.get("match", {}).items():
            have = v.kind if k == "kind" else v.sig.get(k)
            if isinstance(want, list):
                if have not in want:
                    ok = False
            elif have != want:
                ok = False
        if ok:
            return f
    return None
