"""
Execution substrate: scratch trees on tmpfs, seams (clock, host, listing order, audit), and the
two command runners (in-process CliRunner; one fresh subprocess per command for confirmation).
"""
import base64
import builtins
import datetime as _dt
import json
import os
import platform
import shutil
import subprocess
import sys
import time as _time
import types

HERE = os.path.dirname(os.path.abspath(__file__))
VERIF = os.path.dirname(HERE)
PY = "/venv/bin/python"
DIR = None
T0 = 1_000_000_000  # mtime given to everything that is materialised (2001-09-09T01:46:40Z) ...
T0_FRAC_NS = 123_456_789  # ... plus an odd nanosecond part, so that a "restored" mtime that went through a float is noticed
NOW0 = 1_593_600_000.25  # default virtual "now" 2020-07-01T10:40:00.25Z


# ---------------------------------------------------------------------------------------------
# scratch directories

def shm_base():
    for d in ("/dev/shm", os.environ.get("TMPDIR") or "/tmp"):
        if os.path.isdir(d) and os.access(d, os.W_OK):
            return d
    return "/tmp"


_scratch_counter = [0]


def new_scratch(tag="w"):
    _scratch_counter[0] += 1
    # (process ids are re-used quickly on a busy machine: the start time keeps the name unique among checks that run side by side)
    p = os.path.join(shm_base(), f"mhlmc.{os.getpid()}.{int(_time.time() * 1000) % 100000000:08d}.{tag}{_scratch_counter[0]}")
    shutil.rmtree(p, ignore_errors=True)
    os.makedirs(p)
    return p


def rm(p):
    shutil.rmtree(p, ignore_errors=True)


LINKS = {}   # {relpath: link target}: files of the tree that materialise() creates as symbolic links to another file of the tree
             # (the tree model carries the target's bytes under the link's path: a link to a file is hashed through the link)


def materialise(root, tree, mtimes=None, clean=True):
    """write tree {relpath: bytes|None} below root (root is (re)created); every entry gets mtime T0
    unless mtimes {relpath: seconds} says otherwise ('' = the root itself)"""
    if clean:
        if os.path.lexists(root):
            shutil.rmtree(root)
        os.makedirs(root)
    ropen = REAL["open"]
    for p in sorted(tree):
        fp = os.path.join(root, p)
        if tree[p] is DIR:
            os.makedirs(fp, exist_ok=True)
        else:
            d = os.path.dirname(fp)
            if not os.path.isdir(d):
                os.makedirs(d)
            if p in LINKS:
                os.symlink(LINKS[p], fp)
                continue
            with ropen(fp, "wb") as f:
                f.write(tree[p])
    mt = mtimes or {}

    def ns(t):
        return int(t) * 1_000_000_000 + int(round((t - int(t)) * 1e9)) + (T0_FRAC_NS if float(t).is_integer() else 0)
    for p in sorted(tree, reverse=True):
        t = ns(mt.get(p, T0))
        fp = os.path.join(root, p)
        os.utime(fp, ns=(t, t), follow_symlinks=not os.path.islink(fp) or os.path.exists(fp))
    t = ns(mt.get("", T0))
    os.utime(root, ns=(t, t))


def reset_mtimes(root, t=T0):
    """give every entry below root (and root) the fixed mtime again: creating an ascmhl folder updates the
    real mtime of its parent directory, which a later command would record as lastmodificationdate"""
    tn = int(t) * 1_000_000_000 + T0_FRAC_NS
    for dp, dn, fn in os.walk(root, topdown=False):
        for n in fn + dn:
            os.utime(os.path.join(dp, n), ns=(tn, tn))
    os.utime(root, ns=(tn, tn))


def readback(root):
    """{relpath: bytes|None} of everything below root (real listing, independent of the seam)"""
    out = {}
    rl = REAL["listdir"]
    ropen = REAL["open"]

    def walk(d, rel):
        for n in sorted(rl(d)):
            fp = os.path.join(d, n)
            r = rel + "/" + n if rel else n
            if os.path.isdir(fp) and not os.path.islink(fp):
                out[r] = DIR
                walk(fp, r)
            elif os.path.islink(fp) and os.path.isdir(fp):
                continue   # a link to a folder (the harness's own 'through a symbolic link' spelling) is not part of the tree
            else:
                with ropen(fp, "rb") as f:
                    out[r] = f.read()
    walk(root, "")
    return out


def snapshot_meta(root):
    """{relpath: (type, bytes|None, size, mtime_ns, mode)}; '' is the root itself"""
    out = {}
    rl = REAL["listdir"]
    ropen = REAL["open"]

    def one(fp, r):
        st = os.lstat(fp)
        if os.path.isdir(fp) and not os.path.islink(fp):
            out[r] = ("d", None, 0, st.st_mtime_ns, st.st_mode)
            for n in sorted(rl(fp)):
                one(os.path.join(fp, n), r + "/" + n if r else n)
        elif os.path.islink(fp):
            out[r] = ("l", os.readlink(fp).encode(), st.st_size, st.st_mtime_ns, st.st_mode)   # a link is its target text
        else:
            with ropen(fp, "rb") as f:
                b = f.read()
            out[r] = ("f", b, st.st_size, st.st_mtime_ns, st.st_mode)
    one(root, "")
    return out


def tree_to_json(tree):
    return {p: (None if v is DIR else base64.b64encode(v).decode()) for p, v in tree.items()}


def tree_from_json(j):
    return {p: (None if v is None else base64.b64decode(v)) for p, v in j.items()}


# ---------------------------------------------------------------------------------------------
# seams

REAL = {"open": builtins.open, "listdir": os.listdir, "scandir": os.scandir, "node": platform.node,
        "mkdir": os.mkdir, "replace": os.replace, "rename": os.rename}
NOW = [NOW0]
STEP = [0.0]          # every read of the clock advances it by STEP (0 = frozen)
ORDER = {"perm": None}  # None = sorted; else callable(dirpath, sorted_names) -> names in the order to return
_installed = [False]


class FakeDT(_dt.datetime):
    """datetime class bound into the ascmhl modules: only the *clock* is virtual.  Every constructor returns a
    plain datetime object: CPython does not compute `fold` for subclasses in fromtimestamp(), which would make the
    seam itself misreport times in the repeated hour after a DST switch."""

    @classmethod
    def now(cls, tz=None):
        r = _dt.datetime.fromtimestamp(NOW[0], tz)
        NOW[0] += STEP[0]
        return r

    @classmethod
    def utcnow(cls):
        return _dt.datetime.fromtimestamp(NOW[0], _dt.timezone.utc).replace(tzinfo=None)

    @classmethod
    def today(cls):
        return cls.now()

    @classmethod
    def fromtimestamp(cls, t, tz=None):
        return _dt.datetime.fromtimestamp(t, tz)


def _order(dirpath, names):
    names = sorted(names)
    if ORDER["perm"] is None:
        return names
    return list(ORDER["perm"](dirpath, names))


class _ScanDir:
    def __init__(self, p):
        with REAL["scandir"](p) as it:
            ents = {e.name: e for e in it}
        self.e = [ents[n] for n in _order(p, list(ents))]

    def __iter__(self):
        return self

    def __next__(self):
        if not self.e:
            raise StopIteration
        return self.e.pop(0)

    def __enter__(self):
        return self

    def __exit__(self, *a):
        pass

    def close(self):
        pass


def _listdir(p="."):
    return _order(p, REAL["listdir"](p))


def _scandir(p="."):
    return _ScanDir(p)


def rebind_clock():
    """rebind, in every loaded ascmhl.* module, each attribute that *is* the datetime module, the
    datetime class or the time module to the shim (independent of import style)"""
    dt_shim = types.ModuleType("datetime")
    dt_shim.__dict__.update(_dt.__dict__)
    dt_shim.datetime = FakeDT
    class _TimeShim(types.ModuleType):
        # everything but the clock itself is read through to the real module (timezone / altzone / tzname
        # change with tzset(), a copied dict would go stale)
        def __getattr__(self, name):
            return getattr(_time, name)
    tm_shim = _TimeShim("time")
    # every function of the module that reads the clock when called without an argument answers from the injected clock
    tm_shim.localtime = lambda s=None: _time.localtime(NOW[0] if s is None else s)
    tm_shim.gmtime = lambda s=None: _time.gmtime(NOW[0] if s is None else s)
    tm_shim.ctime = lambda s=None: _time.ctime(NOW[0] if s is None else s)
    tm_shim.asctime = lambda t=None: _time.asctime(_time.localtime(NOW[0]) if t is None else t)
    tm_shim.strftime = lambda fmt, t=None: _time.strftime(fmt, _time.localtime(NOW[0]) if t is None else t)
    tm_shim.time = lambda: NOW[0]
    tm_shim.time_ns = lambda: int(NOW[0] * 1_000_000_000)
    by_function = {getattr(_time, k): getattr(tm_shim, k) for k in ("localtime", "gmtime", "ctime", "asctime", "strftime", "time", "time_ns")}
    n = 0
    for name, mod in list(sys.modules.items()):
        if name == "ascmhl" or name.startswith("ascmhl."):
            for k, v in list(vars(mod).items()):
                if v is _dt:
                    setattr(mod, k, dt_shim); n += 1
                elif v is _dt.datetime:
                    setattr(mod, k, FakeDT); n += 1
                elif v is _time:
                    setattr(mod, k, tm_shim); n += 1
                elif callable(v) and getattr(v, "__module__", None) == "time" and v in by_function:   # from time import ...
                    setattr(mod, k, by_function[v]); n += 1
    return n


def install_seams():
    if _installed[0]:
        return
    _installed[0] = True
    os.environ.setdefault("TZ", "UTC")
    _time.tzset()
    import ascmhl.commands, ascmhl.history, ascmhl.hashlist, ascmhl.utils, ascmhl.generator  # noqa
    import ascmhl.hashlist_xml_parser, ascmhl.chain_xml_parser, ascmhl.traverse, ascmhl.ignore  # noqa
    n = rebind_clock()
    assert n >= 4, f"clock seam: only {n} bindings found"
    platform.node = lambda: "verifhost"
    os.listdir = _listdir
    os.scandir = _scandir


def set_tz(tz):
    os.environ["TZ"] = tz
    _time.tzset()


# audit seam: collects write-type events below a watched prefix while AUDIT['on']
AUDIT = {"on": False, "events": [], "prefix": None, "opens": []}
_audit_installed = [False]
_W = os.O_WRONLY | os.O_RDWR | os.O_CREAT | os.O_TRUNC | os.O_APPEND


def _audit(ev, args):
    if not AUDIT["on"]:
        return
    try:
        if ev == "open":
            p = args[0]
            if isinstance(p, bytes):
                p = os.fsdecode(p)
            if not isinstance(p, str):
                return
            pre = AUDIT["prefix"]
            if pre and not os.path.abspath(p).startswith(pre):
                return
            fl = args[2] or 0
            if fl & _W:
                AUDIT["events"].append(("open_w", p))
            else:
                AUDIT["opens"].append(p)
        elif ev in ("os.mkdir", "os.rename", "os.replace", "os.remove", "os.rmdir", "os.utime", "os.chmod",
                    "os.truncate", "os.link", "os.symlink", "os.chown", "shutil.rmtree", "shutil.move",
                    "shutil.copyfile", "shutil.copymode", "shutil.copystat", "shutil.copytree"):
            AUDIT["events"].append((ev,) + tuple(os.fsdecode(a) if isinstance(a, bytes) else a
                                                 for a in args if isinstance(a, (str, bytes))))
    except Exception:  # never let the hook disturb the program under test
        pass


def install_audit():
    if not _audit_installed[0]:
        _audit_installed[0] = True
        sys.addaudithook(_audit)


# ---------------------------------------------------------------------------------------------
# runners

class Res:
    __slots__ = ("exit", "out", "err", "exc", "tb", "audit", "opens")

    def __init__(self, exit, out, err, exc=None, tb=None, audit=None, opens=None):
        self.exit, self.out, self.err, self.exc, self.tb = exit, out, err, exc, tb
        self.audit, self.opens = audit, opens   # filled by the subprocess runner only

    def as_dict(self):
        return {"exit": self.exit, "out": self.out, "err": self.err, "exc": self.exc}

    @property
    def text(self):
        return self.out + "\n" + self.err


_cmds = {}


def _cmd(name):
    if not _cmds:
        import ascmhl.commands as C
        _cmds.update({"create": C.create, "verify": C.verify, "diff": C.diff, "info": C.info,
                      "flatten": C.flatten, "hash": C.hash, "xsd-schema-check": C.xsd_schema_check})
    return _cmds[name]


class CommandHang(BaseException):
    """raised inside a command that does not come back (BaseException: the command's own handlers must not swallow it)"""


HANG_LIMIT = float(os.environ.get("VERIF_HANG_LIMIT", "60"))   # seconds of real time for ONE command (they take milliseconds)


def _on_alarm(signum, frame):
    raise CommandHang()


def run_inproc(name, args, now=None, cwd=None, step=0.0):
    """run one command in this process (seams must be installed); returns Res.  A command that does not return within
    HANG_LIMIT seconds is interrupted and reported as exit -98 / exc 'CommandHang' (an endless loop in the tool must not
    hang the exploration)"""
    from click.testing import CliRunner
    import signal
    import threading
    import traceback
    if now is not None:
        NOW[0] = now
    STEP[0] = step
    old = os.getcwd() if cwd else None
    if cwd:
        os.chdir(cwd)
    armed = threading.current_thread() is threading.main_thread() and signal.getitimer(signal.ITIMER_REAL)[0] == 0
    if armed:
        prev = signal.signal(signal.SIGALRM, _on_alarm)
        signal.setitimer(signal.ITIMER_REAL, HANG_LIMIT)
    try:
        try:
            r = CliRunner(mix_stderr=False).invoke(_cmd(name), [str(a) for a in args])
        finally:
            if armed:
                signal.setitimer(signal.ITIMER_REAL, 0)
                signal.signal(signal.SIGALRM, prev)
    except CommandHang:
        return Res(-98, "", "", f"CommandHang: {name} did not return within {HANG_LIMIT:.0f} s", None)
    finally:
        if cwd:
            os.chdir(old)
    exc = None
    tb = None
    if r.exception is not None and not isinstance(r.exception, SystemExit):
        exc = type(r.exception).__name__ + ": " + str(r.exception)[:300]
        if r.exc_info:
            fr = traceback.extract_tb(r.exc_info[2])
            tb = [(os.path.basename(f.filename), f.name, f.lineno) for f in fr if "/ascmhl/" in f.filename][-3:]
    return Res(r.exit_code, r.stdout, r.stderr, exc, tb)


def run_subproc(name, args, now=None, cwd=None, step=0.0, tz=None, order=None, hashseed="0", audit_prefix=None):
    """run one command in a fresh interpreter with the clock/host (and optional listing) seams"""
    spec = {"cmd": name, "args": [str(a) for a in args], "now": NOW[0] if now is None else now, "step": step,
            "order": order, "audit_prefix": audit_prefix}
    env = dict(os.environ)
    env["PYTHONHASHSEED"] = str(hashseed)
    env["TZ"] = tz or os.environ.get("TZ", "UTC")
    env["PYTHONPATH"] = VERIF + os.pathsep + env.get("PYTHONPATH", "")
    try:
        p = subprocess.run([PY, "-m", "mc.one"], input=json.dumps(spec), capture_output=True, text=True,
                           cwd=cwd or VERIF, env=env, timeout=HANG_LIMIT + 30)
    except subprocess.TimeoutExpired:
        return Res(-98, "", "", f"CommandHang: {name} did not return within {HANG_LIMIT:.0f} s", None)
    try:
        j = json.loads(p.stdout.rsplit("\n@@RES@@", 1)[1])
        return Res(j["exit"], j["out"], j["err"], j["exc"], j.get("tb"),
                   [tuple(e) for e in j["audit"]] if j.get("audit") is not None else None, j.get("opens"))
    except Exception:
        return Res(-99, p.stdout, p.stderr, "HARNESS: subprocess runner failed")


class Runner:
    """the one object oracles use to execute commands; mode 'in' or 'sub'"""

    def __init__(self, mode="in"):
        self.mode = mode

    def __call__(self, name, args, **kw):
        if self.mode == "in":
            tz = kw.pop("tz", None)
            kw.pop("order", None)
            kw.pop("audit_prefix", None)
            if tz and tz != os.environ.get("TZ"):
                old = os.environ.get("TZ", "UTC")
                set_tz(tz)
                try:
                    return run_inproc(name, args, **kw)
                finally:
                    set_tz(old)
            return run_inproc(name, args, **kw)
        return run_subproc(name, args, **kw)
