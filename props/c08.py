"""C08 - nested histories partition the tree and reference each other correctly (engine E1)"""
import os
from mc import engine, ref, ops
from mc.engine import Viol
from props import e1

PROP = "C08"
DIR = None
DIRS = ["A", "AB", "A/B", "A/B/C"]
DIRS_X = DIRS + ["A/B/C/D", "E"]
FMT = {"Cam A&B": ["md5"], "Cam A&B/in <1>": ["xxh64"], "day1/cardA": ["md5"], "day2/cardA": ["md5"], ".hid": ["md5"], ".hid/.in": ["sha1"], "..two": ["xxh64"], "": ["xxh64"], "A": ["md5"], "AB": ["xxh64"], "A/B": ["sha1"], "A/B/C": ["c4"], "A/B/C/D": ["md5", "xxh3"], "E": ["md5"]}


def base_tree(dirs):
    t = {"r.txt": b"root file"}
    for d in dirs:
        ops.add_parents(t, d + "/x")
        t[d] = DIR
        if d != "E":    # E stays empty: a nested history without any file
            t[d + "/" + d.replace("/", "_").lower() + ".txt"] = ("file in " + d).encode()
    return t


def enabled(tree, meta):
    out = []
    if meta["cmds"] >= meta["max_cmds"]:
        return out
    med = ref.media(tree)
    m2 = dict(meta, cmds=meta["cmds"] + 1)
    cont = meta["cmds"] + 1 < meta["max_cmds"]
    dirs = sorted(p for p, c in med.items() if c is DIR and (not meta.get("roots") or p in meta["roots"]))
    for d in dirs:
        out.append((ops.create(d, FMT[d]), m2, cont))
        kids = sorted(p for p in dirs if ref.parent(p) == d)
        if kids and meta.get("ignores", True):   # sealed on its own while a sub-folder (possibly a nested root) is excluded
            out.append((ops.create(d, FMT[d], i=[kids[0].split("/")[-1] + "/"]), m2, cont))
    out.append((ops.create("", FMT[""]), m2, cont))
    out.append((ops.create("", ["md5", "c4"], n=True), m2, cont))
    out.append((ops.create("", ["c4", "sha1"]), m2, cont))
    for f in sorted(p for p, c in med.items() if c is not DIR):
        out.append((ops.create("", ["xxh64"], sf=[f]), m2, cont))
    if meta.get("rich"):
        for d in dirs:
            fs = sorted(p for p, c in med.items() if c is not DIR and p.startswith(d + "/"))
            if fs:
                out.append((ops.create(d, ["xxh64"], sf=[fs[-1]]), m2, cont))
        out.append((ops.create("", ["xxh64"], sf=[d for d in dirs[:1]]), m2, cont))
    return out


def within(R, p):
    return R == "" or p == R or p.startswith(R + "/")


def owner(roots, p, isdir):
    """history that must record entry p: deepest root containing it; a nested root directory itself is
    recorded by the next history above it"""
    cand = [r for r in roots if r != p] if isdir else roots
    return ref.history_for_path(cand, p) if True else None


def judge(pre, op, post, res, obs, meta):
    if op[0] != "create":
        return []
    o = op[1]
    R = o.get("root", "")
    sf = o.get("sf")
    mode = "sf" if sf else ("folder-n" if o.get("n") else "folder")
    v = []
    pre_roots_all = ref.history_roots(pre)
    sub_roots = [r for r in pre_roots_all if within(R, r) and r != R]
    sig = {"mode": mode, "depth": max([r.count("/") + 1 for r in sub_roots], default=0) - (R.count("/") + 1 if R else 0),
           "top": R == ""}

    def V(kind, detail, **extra):
        v.append(Viol(PROP, kind, dict(sig, **extra), detail))

    if res.exc is not None or res.exit != 0:
        V("abort", f"{ops.label(op)}: exit {res.exit} {res.exc} {res.tb}\n{res.err[-300:]}",
          exc=(res.exc or "").split(":")[0], where=res.tb[-1][1] if res.tb else None)
        return v
    med = ref.media(pre)
    # entries excluded by the effective patterns (those of the latest generation of the history at R plus the ones given) are
    # outside this run: not recorded, and a history below an excluded folder gets no generation
    gens_R = ref.generations(pre, R)
    eff = list(ref.read_manifest(gens_R[-1]["bytes"])["ignore"] or ref.DEFAULT_PATTERNS) if gens_R else list(ref.DEFAULT_PATTERNS)
    eff += [g for g in (o.get("i") or []) if g not in eff]
    eff += [g for g in ref.DEFAULT_PATTERNS if g not in eff]
    if len(eff) > len(ref.DEFAULT_PATTERNS) and not sf:
        rel_R = lambda p: p[len(R) + 1:] if R else p
        med = {p: c for p, c in med.items() if not within(R, p) or p == R or not ref.ignored(eff, rel_R(p), c is DIR)}
        sub_roots = [r for r in sub_roots if not ref.ignored(eff, rel_R(r), True)]
    # histories in scope: R itself (created if new) plus every existing history below R; an existing history
    # *above* R is not touched by a command run at R
    roots = sorted(set(sub_roots) | {R})

    def hroot_local(p, isdir):
        cand = [r for r in roots if not (isdir and r == p)]
        best = R
        for r in cand:
            if r != R and (p == r or p.startswith(r + "/")) and len(r) > len(best):
                best = r
        return best

    newm = {}   # hroot -> (manifest path, parsed, bytes)
    for p in post:
        if p.endswith(".mhl") and p not in pre and ref.is_in_ascmhl(p) and post[p] is not DIR:
            hr = p[:p.rfind("ascmhl/")].rstrip("/")
            if hr in newm:
                V("two-generations", f"history '{hr}' received two manifests in one run")
            newm[hr] = (p, ref.read_manifest(post[p]), post[p])
    # (e) which histories get a generation
    if sf:
        want = set()
        for s in sf:
            files = [s] if med.get(s, 0) is not DIR else [p for p, c in med.items() if c is not DIR and p.startswith(s + "/")]
            for f in files:
                h = hroot_local(f, False)
                while True:
                    want.add(h)
                    if h == R:
                        break
                    h = hroot_local(h, True)
    else:
        want = set(roots)
    if set(newm) != want:
        V("generation-set", f"{ops.label(op)}: new generations in {sorted(newm)}, expected {sorted(want)}",
          missing=sorted(want - set(newm)), extra=sorted(set(newm) - want))
    # (a) partition / routing
    if sf:
        exp = {}
        for s in sf:
            files = [s] if med.get(s, 0) is not DIR else [p for p, c in med.items() if c is not DIR and p.startswith(s + "/")]
            for f in files:
                exp[(f, "file")] = hroot_local(f, False)
    else:
        exp = {(p, "dir" if c is DIR else "file"): hroot_local(p, c is DIR) for p, c in med.items()
               if within(R, p) and p != R}
    got = {}
    for hr, (mp, m, _) in newm.items():
        for rec in m["records"]:
            p = rec["path"]
            if p is None or p.startswith("/") or ".." in p.split("/") or p == ".":
                V("bad-path", f"record path {p!r} in {mp}")
                continue
            got.setdefault(((hr + "/" + p) if hr else p, rec["kind"]), []).append(hr)
    for key, hr in exp.items():
        g = got.get(key, [])
        if g != [hr]:
            V("routing", f"{ops.label(op)}: {key} recorded in histories {g}, expected exactly ['{hr}'] "
              f"(history roots: {roots})", what=key[1], n=len(g))
    for key in set(got) - set(exp):
        V("extra-record", f"{ops.label(op)}: unexpected record {key} in {got[key]}", what=key[1])
    # (b) nested root entry in the parent carries the child's own root hash
    if not sf:
        for r in roots:
            if r == R or r not in newm:
                continue
            par = hroot_local(r, True)
            if par not in newm:
                continue
            child_rh = newm[r][1]["roothash"]
            rel = ref.rel_to(par, r)
            ent = [x for x in newm[par][1]["records"] if x["kind"] == "dir" and x["path"] == rel]
            if len(ent) != 1:
                continue  # reported by routing
            e_c = {h["format"]: h["digest"] for h in ent[0]["content"]}
            e_s = {h["format"]: h["digest"] for h in ent[0]["structure"]}
            if o.get("n"):
                if e_c or e_s or child_rh:
                    V("hashes-despite-n", f"-n run but {rel} / roothash of {r} carry hashes")
                continue
            c_c = {h["format"]: h["digest"] for h in (child_rh or {}).get("content", [])}
            c_s = {h["format"]: h["digest"] for h in (child_rh or {}).get("structure", [])}
            if not c_c or e_c != c_c or e_s != c_s:
                V("child-roothash", f"directory entry {rel} in history '{par}' has {e_c}/{e_s}, child '{r}' roothash {c_c}/{c_s}")
            for f in o.get("fmts", []):
                sub_tree = {p[len(r) + 1:]: c for p, c in med.items() if p.startswith(r + "/")}
                wc, ws = ref.dir_hashes(sub_tree, "", f, lambda p, d: ref.ignored(ref.DEFAULT_PATTERNS, p, d))
                if c_c.get(f) != wc or c_s.get(f) != ws:
                    V("child-roothash-value", f"roothash of '{r}' {f}: {c_c.get(f)}/{c_s.get(f)}, definition {wc}/{ws}")
    # (c) references: each parent manifest references each direct child's new manifest
    for hr, (mp, m, _) in newm.items():
        kids = [r for r in newm if r != hr and hroot_local(r, True) == hr]
        want_refs = sorted((ref.rel_to(hr, newm[k][0]) if hr else newm[k][0], ref.digest("c4", newm[k][2])) for k in kids)
        have_refs = sorted((x["path"], x["c4"]) for x in m["references"])
        if want_refs != have_refs:
            V("references", f"manifest {mp} references {have_refs}, expected {want_refs}", n_have=len(have_refs),
              n_want=len(want_refs))
    # (d) child manifests are written before their parents (audit order of write-opens)
    if obs and obs.get("audit") is not None and "meta_pre" in obs:
        order = []
        for ev in obs["audit"]:
            # the manifest may be written under a temporary name first: the order is that of the first write-open of
            # the manifest or of its temporary twin
            pth = ev[1][:-4] if isinstance(ev[1], str) and ev[1].endswith(".tmp") else ev[1]
            if isinstance(pth, str) and not pth.startswith(obs["root"] + "/"):   # the tree was addressed through a symbolic link
                pth = os.path.join(os.path.realpath(os.path.dirname(pth)), os.path.basename(pth))
            if ev[0] == "open_w" and pth.endswith(".mhl"):
                rel = pth[len(obs["root"]) + 1:] if pth.startswith(obs["root"] + "/") else None
                if rel and rel not in order:
                    order.append(rel)
        if newm and not order:
            V("commit-order-unobservable", f"no write-open of any new manifest was observed (audit: {obs['audit'][:4]})")
        pos = {p: i for i, p in enumerate(order)}
        for hr, (mp, m, _) in newm.items():
            par = hroot_local(hr, True) if hr != R else None
            if par is not None and par in newm and mp in pos and newm[par][0] in pos and pos[mp] > pos[newm[par][0]]:
                V("commit-order", f"parent manifest {newm[par][0]} opened for writing before child {mp}")
    return v


def classify(pre, op, post, res):
    return len([p for p in post if p.endswith(".mhl") and p not in pre])


eval_case = e1.eval_case


def main(tier, seed):
    eng = engine.Engine(PROP, tier, seed, "model_checking")
    engine.selftest(eng)
    plans = [dict(dirs=DIRS, max_cmds=4)] if tier == "quick" else [dict(dirs=DIRS, max_cmds=5), dict(dirs=DIRS_X, max_cmds=4, rich=True)]
    tot = {"states": 0, "transitions": 0}
    runs = []
    plans.append(dict(dirs=["A", "E"], max_cmds=3, ignores=False))
    plans.append(dict(dirs=[".hid", ".hid/.in", "..two"], max_cmds=3, ignores=False))   # nested roots whose names start with dots   # E: a nested root without any entry below it
    # nested roots with the SAME folder name in different places (their manifests of one run carry the same file name)
    plans.append(dict(dirs=["day1", "day1/cardA", "day2", "day2/cardA"], roots=["day1/cardA", "day2/cardA"], max_cmds=4, ignores=False))
    # nested roots whose names hold the characters XML reserves (they appear in the references of the parent's manifests)
    plans.append(dict(dirs=["Cam A&B", "Cam A&B/in <1>"], max_cmds=3, ignores=False))
    # a plain folder that holds a sub folder whose name is a case variant of the tool's own folder name (another name on this
    # file system): no history, nothing special
    plans.append(dict(dirs=["A", "docs", "docs/ASCMHL", "A/Ascmhl"], roots=["A"], max_cmds=3, ignores=False))
    plans += [dict(dirs=DIRS, max_cmds=3 if tier == "quick" else 4, spell=sp) for sp in ("slash", "dot", "symlink")]   # root spelled 'dir/', '.'
    for pl in plans:
        meta = dict(alpha="c08", oracles=["c08"], cmds=0, observe=True, max_cmds=pl["max_cmds"], rich=pl.get("rich", False))
        if pl.get("spell"):
            meta["spell"] = pl["spell"]
        if "ignores" in pl:
            meta["ignores"] = pl["ignores"]
        if pl.get("roots"):
            meta["roots"] = pl["roots"]
        r = engine.bfs(eng, e1.expand, [(base_tree(pl["dirs"]), meta, "tree:" + ",".join(pl["dirs"]))],
                       max_depth=pl["max_cmds"], label=ops.label, state_cap=300000)
        runs.append(dict(dirs=pl["dirs"], max_cmds=pl["max_cmds"], **r))
        tot["states"] += r["states"]
        tot["transitions"] += r["transitions"]
    cov = {"states": tot["states"], "transitions": tot["transitions"], "traces_validated_against_impl": tot["transitions"],
           "exhaustive": not eng.caps, "runs": runs,
           "rule": "BFS from a tree with directories A, AB (prefix-named sibling), A/B, A/B/C (+A/B/C/D): every command sequence "
                   "up to the bound over {create at each directory (own format), create / create -n at the top, create -sf of "
                   "each file} - hence every subset of nested roots in every creation order, followed by every top-level form; "
                   "each create judged: which histories get a generation, routing of every entry to the deepest history, "
                   "child root hash copied into the parent entry, references (relative path + c4 of final bytes), child "
                   "written before parent (audit order)"}
    return eng.finish(cov, eval_case)


def replay(path):
    return engine.replay_file(path, eval_case, PROP)
