"""C19 - info reports the recorded history truthfully (engine E1, invariant in every state)"""
import os
import re

from mc import engine, ref, ops, sub
from mc.engine import Viol
from props import e1

PROP = "C19"
DIR = None
# the output is read by tokens, not by its exact wording: a generation line is a line with an ISO date; the number is the last
# integer before the date, format / digest / action are recognised by their shape after it; a line without a date that names
# the folder of a nested history starts that history's section
ISO = re.compile(r"\d{4}-\d\d-\d\dT\d\d:\d\d:\d\d(?:\.\d+)?(?:[+-]\d\d:?\d\d|Z)?")
DIG = re.compile(r"\b(?:[0-9a-f]{16}|[0-9a-f]{32}|[0-9a-f]{40}|c4[1-9A-HJ-NP-Za-km-z]{88})\b")
FMT = re.compile(r"\b(md5|sha1|xxh64|xxh3|xxh128|xxh32|c4)\b")
ACT = re.compile(r"\b(original|verified|failed|new)\b")


def same_instant(a, b):
    if a == b:
        return True
    try:
        import datetime
        return datetime.datetime.fromisoformat(a.replace("Z", "+00:00")) == datetime.datetime.fromisoformat(b.replace("Z", "+00:00"))
    except Exception:
        return False


def case_has_renames(tree):
    return any(b"<previousPath" in c for p, c in tree.items() if c is not None and p.endswith(".mhl"))


def parse_info(out, sections=()):
    """{section path or '': [(number, date, fmt, digest, action)]}; sections: absolute paths of the nested histories"""
    sec = ""
    res = {"": []}
    for ln in out.splitlines():
        d = ISO.search(ln)
        if d is None:
            hits = [p for p in sections if re.search(re.escape(p) + r"/?(?:[:\s'\"),]|$)", ln)]
            if hits:
                sec = max(hits, key=len)
                res.setdefault(sec, [])
            continue
        nums = re.findall(r"\b\d+\b", ln[:d.start()])
        if not nums:
            continue
        rest = ln[d.end():]
        f, g, a = FMT.search(rest), DIG.search(rest), ACT.search(rest)
        res[sec].append((int(nums[-1]), d.group(0), f.group(1) if f else None, g.group(0) if g else None, a.group(1) if a else None))
    return res


def judge_state(ctx, tree, now, case):
    v = []
    stats = {"cmds": 0}
    roots = ref.history_roots(tree)
    sig = {"nested": len([r for r in roots if r]) > 0}

    def V(kind, detail, **extra):
        v.append(Viol(PROP, kind, dict(sig, **extra), detail, case))

    sub.materialise(ctx.root, tree)
    root = ctx.root
    # info ROOT, plain and verbose (the verbose form adds lines, it must not add, drop or repeat generations)
    for vflag in ((), ("-v",)):
        vtag = " -v" if vflag else ""
        r = ctx.run("info", list(vflag) + [root], now=now)
        stats["cmds"] += 1
        if "" not in roots:
            if r.exit != 30:
                V("no-history-exit", f"info{vtag} on a folder without history exits {r.exit} {r.exc or ''}", exit=r.exit)
        elif r.exc is not None or r.exit != 0:
            V("info-fails", f"info{vtag} ROOT: exit {r.exit} {r.exc} {r.tb}", exc=(r.exc or "").split(":")[0] or None, verbose=bool(vflag))
        else:
            got = parse_info(r.out, [os.path.join(root, hr) for hr in roots if hr and not ref.is_in_ascmhl(hr)])
            want = {}
            for hr in roots:
                if ref.is_in_ascmhl(hr):
                    continue
                key = "" if hr == "" else os.path.join(root, hr)
                want[key] = [(g["number"], ref.read_manifest(g["bytes"])["creationdate"]) for g in ref.generations(tree, hr)]
            gotg = {k: [(n, d) for n, d, *_ in lst] for k, lst in got.items()}
            if set(gotg) != set(want):
                V("history-sections", f"info{vtag} ROOT lists histories {sorted(gotg)}, on disk {sorted(want)}",
                  missing=len(set(want) - set(gotg)), extra=len(set(gotg) - set(want)), verbose=bool(vflag))
            for k in set(gotg) & set(want):
                if len(gotg[k]) != len(want[k]) or any(a[0] != b[0] or not same_instant(a[1], b[1]) for a, b in zip(gotg[k], want[k])):
                    V("generation-list", f"info{vtag} ROOT, history '{k or '.'}': printed {gotg[k]}, manifests on disk {want[k]}",
                      child=k != "", verbose=bool(vflag))
    # info -sf for every recorded file
    recorded = {}
    for hr in roots:
        for g in ref.generations(tree, hr):
            for rec in ref.read_manifest(g["bytes"])["records"]:
                if rec["kind"] == "file":
                    recorded.setdefault((hr + "/" + rec["path"]) if hr else rec["path"], None)
    med = ref.media(tree)
    link = os.path.join(ctx.base, "link-to-root")   # the same tree reached through a symbolic link
    if os.path.lexists(link):
        os.remove(link)
    os.symlink(root, link)
    nforms = 0
    wants = {}
    for f in sorted(recorded):
        if f not in med or med[f] is DIR:
            continue   # -sf needs an existing path (and a file: the name may belong to a folder by now)
        hr = ref.history_for_path(roots, f)
        rel = ref.rel_to(hr, f)
        want = []
        for g in ref.generations(tree, hr):
            m = ref.read_manifest(g["bytes"])
            for rec in m["records"]:
                # (a record that names this path as its former path is a record of this file as well: the generation in which
                # the file carried another name)
                if rec["kind"] == "file" and (rec["path"] == rel or rec["previousPath"] == rel):
                    for h in rec["hashes"]:
                        want.append((g["number"], m["creationdate"], h["format"], h["digest"], h["action"]))
        wants[f] = (hr, want)
        forms = [("with-root", [root, "-sf", os.path.join(root, f)], None), ("without-root", ["-sf", os.path.join(root, f)], None)]
        nforms += 1
        if "/" in f and nforms <= 6:   # named relatively from the folder it lies in (a working directory inside the history)
            forms.append(("relative-to-own-folder", ["-sf", f.rsplit("/", 1)[1]], os.path.join(root, f.rsplit("/", 1)[0])))
            forms.append(("dot-relative-to-own-folder", ["-sf", "./" + f.rsplit("/", 1)[1]], os.path.join(root, f.rsplit("/", 1)[0])))
        if nforms <= 2:   # other ways of naming the same file
            forms += [("relative-to-cwd", ["-sf", f], root), ("through-symlink", ["-sf", os.path.join(link, f)], None),
                      ("with-root-through-symlink", [link, "-sf", os.path.join(link, f)], None)]
        if nforms <= 2 or case_has_renames(tree):
            forms.append(("verbose", ["-v", "-sf", os.path.join(root, f)] + ([root] if "" in roots else []), None))
        for form, args, cwd in forms:
            if form.startswith("with-root") and "" not in roots:
                continue
            r2 = ctx.run("info", args, now=now, cwd=cwd)
            stats["cmds"] += 1
            if r2.exc is not None or r2.exit != 0:
                V("info-sf-fails", f"info {form} -sf {f}: exit {r2.exit} {r2.exc}", form=form, exc=(r2.exc or "").split(":")[0] or None)
                continue
            got = [x for lst in parse_info(r2.out).values() for x in lst if x[2] is not None]
            key = lambda x: (x[0], x[2] or "", x[3] or "", x[4] or "")
            if form == "verbose":
                # the verbose form adds lines (creator / process information, the records of a former name): every recorded digest
                # of the file must still be there
                if not set(map(key, want)) <= set(map(key, got)):
                    V("digest-lines", f"info -v -sf {f} (history '{hr or '.'}'): printed {got}, recorded {want}", form=form, in_child=hr != "",
                      n_printed=min(len(got), 1))
                continue
            if sorted(map(key, got)) != sorted(map(key, want)) or [x[0] for x in got] != sorted(x[0] for x in got) or \
                    any(not same_instant(a[1], b[1]) for a, b in zip(sorted(got, key=key), sorted(want, key=key))):
                V("digest-lines", f"info {form} -sf {f} (history '{hr or '.'}'): printed {got}, recorded {want}",
                  form=form, in_child=hr != "", n_printed=min(len(got), 1))
    # several -sf options at once (no ROOT argument): files of one history that live in different folders - first those whose
    # folder names share a leading part
    pairs = [(a, b) for a in sorted(wants) for b in sorted(wants) if a < b and wants[a][0] == wants[b][0]
             and ref.parent(a) != ref.parent(b)]
    pairs.sort(key=lambda ab: (-len(os.path.commonprefix([ref.parent(ab[0]) + "/", ref.parent(ab[1]) + "/"]).rsplit("/", 1)[-1]), ab))
    for a, b in pairs[:2]:
        r4 = ctx.run("info", ["-sf", os.path.join(root, a), "-sf", os.path.join(root, b)], now=now)
        stats["cmds"] += 1
        want2 = wants[a][1] + wants[b][1]
        key = lambda x: (x[0], x[2] or "", x[3] or "", x[4] or "")
        if r4.exc is not None or r4.exit != 0:
            V("info-sf-fails", f"info -sf {a} -sf {b}: exit {r4.exit} {r4.exc}", form="two-sf", exc=(r4.exc or "").split(":")[0] or None)
        else:
            got2 = [x for lst in parse_info(r4.out).values() for x in lst if x[2] is not None]
            if sorted(map(key, got2)) != sorted(map(key, want2)):
                V("digest-lines", f"info -sf {a} -sf {b} (history '{wants[a][0] or '.'}'): printed {got2}, recorded {want2}",
                  form="two-sf", in_child=wants[a][0] != "", n_printed=min(len(got2), 1))
    # ... and with ROOT given, files that belong to DIFFERENT histories below it: each is looked up in its own nearest history
    if "" in roots:
        cross = [(a, b) for a in sorted(wants) for b in sorted(wants) if a < b and wants[a][0] != wants[b][0]]
        for a, b in cross[:2]:
            r5 = ctx.run("info", [root, "-sf", os.path.join(root, a), "-sf", os.path.join(root, b)], now=now)
            stats["cmds"] += 1
            want2 = wants[a][1] + wants[b][1]
            key = lambda x: (x[0], x[2] or "", x[3] or "", x[4] or "")
            if r5.exc is not None or r5.exit != 0:
                V("info-sf-fails", f"info ROOT -sf {a} -sf {b}: exit {r5.exit} {r5.exc}", form="two-sf-two-histories",
                  exc=(r5.exc or "").split(":")[0] or None)
            else:
                got2 = [x for lst in parse_info(r5.out).values() for x in lst if x[2] is not None]
                if sorted(map(key, got2)) != sorted(map(key, want2)):
                    V("digest-lines", f"info ROOT -sf {a} (history '{wants[a][0] or '.'}') -sf {b} (history '{wants[b][0] or '.'}'): printed "
                      f"{got2}, recorded {want2}", form="two-sf-two-histories", in_child=True, n_printed=min(len(got2), 1))
    # a file that exists but has no history above it
    if not roots and med:
        f = sorted(p for p, c in med.items() if c is not DIR)[:1]
        if f:
            r3 = ctx.run("info", ["-sf", os.path.join(root, f[0])], now=now)
            stats["cmds"] += 1
            if r3.exit != 30:
                V("no-history-exit", f"info -sf without any history exits {r3.exit} {r3.exc or ''}", exit=r3.exit)
    return v, stats


def eval_case(ctx, case):
    return judge_state(ctx, case["tree"], case["now"], case)[0]


def expand(ctx, item):
    tree, meta, depth = item
    out = []
    now = sub.NOW0 + 10 * depth
    case = {"tree": tree, "now": now + 5}
    vs, stats = judge_state(ctx, tree, now + 5, case)
    out.append((["info-all", stats["cmds"]], None, None, vs, ("info", stats["cmds"], "viol" if vs else "ok")))
    for op, m2, cont in e1.mod(meta["alpha"]).enabled(tree, meta):
        if ops.is_edit(op):
            out.append((op, ops.edit(tree, op), m2, [], "edit:" + op[0]))
            continue
        res, post = ops.run_cmd(ctx, tree, op, now, tz=op[1].get("_tz") if isinstance(op[1], dict) else None)
        out.append((op, post, m2, [], ("create", res.exit)))
    return out


# a small alphabet of its own: names that are not in Unicode NFC form, names with blanks at the ends (how a file is NAMED must
# not matter to the look-up)
UNI = {"e\u0301.txt": b"decomposed", "\u00e9.txt": b"composed", "u\u0308 dir": DIR, "u\u0308 dir/f\u0327.txt": b"in nfd dir",
       " lead.txt": b"leading blank", "trail.txt ": b"trailing blank", "\u212b.bin": b"angstrom sign",
       "A001": DIR, "A001/clip.mov": b"clip 1", "A002": DIR, "A002/clip.mov": b"clip 2",
       "A001/notes.txt": b"recorded by the root history only"}   # sibling folders with a common leading part


def enabled(tree, meta):
    out = []
    if meta["cmds"] < meta["max_cmds"]:
        m2 = dict(meta, cmds=meta["cmds"] + 1)
        out.append((ops.create("", ["xxh64"]), m2, True))
        out.append((ops.create("", ["md5", "c4"]), m2, True))
        out.append((ops.create("u\u0308 dir", ["md5"]), m2, True))
        out.append((ops.create("", ["sha1"], sf=["e\u0301.txt", "u\u0308 dir/f\u0327.txt"]), m2, True))
        # a nested history that is started for ONE file of its folder: the other file of that folder has no record in its nearest history
        out.append((ops.create("A001", ["md5"], sf=["A001/clip.mov"]), m2, True))
        # generations sealed in different zones: their creation-date strings do not sort like their numbers (the clock still advances)
        out.append((["create", dict(root="", fmts=["md5"], _tz="Etc/GMT-12")], m2, True))
        out.append((["create", dict(root="", fmts=["xxh64"], _tz="Etc/GMT+11")], m2, True))
    return out


def lab(op):
    return op[0] if op[0] == "info-all" else ops.label(op)


def main(tier, seed):
    eng = engine.Engine(PROP, tier, seed, "model_checking")
    engine.selftest(eng)
    from props import c06, c08
    q = tier == "quick"
    inits = [("c06", dict(c06.BASE), dict(alpha="c06", cmds=0, edits=0, max_cmds=3 if q else 4, max_edits=1, rich=not q)),
             ("c08", c08.base_tree(c08.DIRS), dict(alpha="c08", cmds=0, max_cmds=3, rich=not q, ignores=not q))]
    # a long history (generation numbers pass 9 -> 10) in a root and a nested history
    longbase = ops.build(eng.local_ctx(), dict(c06.BASE), [ops.create("d", ["md5"])])
    inits.append(("c06-long", longbase, dict(alpha="c06", cmds=0, edits=0, max_cmds=11 if q else 13, max_edits=0, long=True)))
    inits.append(("unicode-names", dict(UNI), dict(alpha="c19", cmds=0, max_cmds=3 if q else 4)))
    # histories as another implementation may have written them (dates with 'Z' / fractions, optional attributes left out)
    from mc import foreign
    fbase = ops.build(eng.local_ctx(), dict(c06.BASE), [ops.create("", ["md5"]), ops.create("", ["xxh64", "md5"])])
    for variant in foreign.VARIANTS:
        inits.append(("foreign-" + variant, foreign.rewrite(fbase, variant), dict(alpha="c06", cmds=0, edits=0, max_cmds=1, max_edits=0)))
    # what a create leaves when it is killed after the new manifest is in place and before the chain file lists it: the
    # manifest exists, so the generation exists (generation 2 of two; generation 1 next to a chain file without entries)
    g1 = ops.build(eng.local_ctx(), dict(c06.BASE), [ops.create("", ["md5"])])
    g2 = ops.build(eng.local_ctx(), g1, [ops.create("", ["xxh64", "md5"])], now=sub.NOW0 - 500)
    unl = dict(g2); unl["ascmhl/ascmhl_chain.xml"] = g1["ascmhl/ascmhl_chain.xml"]
    inits.append(("manifest-not-yet-chained", unl, dict(alpha="c06", cmds=0, edits=0, max_cmds=0, max_edits=0)))
    import re as _re
    first = dict(g1); first["ascmhl/ascmhl_chain.xml"] = _re.sub(rb"<hashlist.*</hashlist>\s*", b"", g1["ascmhl/ascmhl_chain.xml"], flags=_re.S)
    inits.append(("first-manifest-not-yet-chained", first, dict(alpha="c06", cmds=0, edits=0, max_cmds=0, max_edits=0)))
    # a file that was renamed (-dr) and renamed back: its records name each other as former paths
    rb = ops.build(eng.local_ctx(), dict(c06.BASE), [ops.create("", ["md5"]), ["mv", "a.txt", "a-r.txt"], ops.create("", ["md5"], dr=True),
                                                     ["mv", "a-r.txt", "a.txt"], ops.create("", ["md5"], dr=True)])
    inits.append(("renamed-and-renamed-back", rb, dict(alpha="c06", cmds=0, edits=0, max_cmds=1, max_edits=0)))
    tot = {"states": 0, "transitions": 0}
    runs = []
    for name, tree, meta in inits:
        r = engine.bfs(eng, expand, [(tree, meta, name)], max_depth=16, label=lab, state_cap=150000)
        runs.append(dict(alphabet=name, **r))
        tot["states"] += r["states"]
        tot["transitions"] += r["transitions"]
    cov = {"states": tot["states"], "transitions": tot["transitions"], "traces_validated_against_impl": tot["transitions"],
           "exhaustive": not eng.caps, "runs": runs,
           "rule": "every state of the C06 alphabet (multi-generation, changing formats, failed entries, -sf generations, two "
                   "nested roots) and of the C08 alphabet (nested chains, prefix-named siblings) up to the bound; in each state "
                   "`info ROOT` is compared with the generations / creation dates of every history read independently, and for "
                   "every recorded file `info ROOT -sf f` and `info -sf f` are compared line by line with the digests recorded in "
                   "its nearest enclosing history (the file also named relative to the working directory and through a symbolic link "
                   "to the root); exit 30 without history"}
    return eng.finish(cov, eval_case)


def replay(path):
    return engine.replay_file(path, eval_case, PROP)
