"""C18 - a flattened manifest faithfully summarises the history (engine E1)"""
import os

from mc import engine, ref, ops, sub
from mc.engine import Viol

PROP = "C18"
DIR = None
T = {"a.txt": b"content of a", "d": DIR, "d/b.txt": b"content of b", "e.dat": b"",
     "man\u0303ana \u212b.mov": b"a name that is not in Unicode NFC form",
     # files with identical content (a copy; a second empty file): every path keeps its own record
     "d/copy of a.txt": b"content of a", "z.dat": b""}
ALT = {"a.txt": b"a ALTERED", "d/b.txt": b"b ALTERED"}


def enabled(tree, meta):
    out = []
    med = ref.media(tree)
    g, mg = meta["cmds"], meta["max_cmds"]
    c = ops.create
    if g < mg:
        m2 = dict(meta, cmds=g + 1)
        for fs in meta["fsets"]:
            out.append((c("", fs, i=meta.get("pats")), m2, True))
        for f in ("a.txt", "d/b.txt"):
            if f in med:
                out.append((c("", meta["fsets"][0], sf=[f]), m2, True))
        if meta.get("zones"):
            # generations sealed in different zones: their wall-clock readings do not sort like the generations (the clock advances)
            # (the state key blanks dates - see engine.canon; the sequence of zones is therefore part of the exploration state)
            zh = meta.get("zhist", "")
            out = [(o, dict(m, zhist=zh + "u") if not ops.is_edit(o) else m, cnt) for o, m, cnt in out]
            out.append((["create", dict(root="", fmts=meta["fsets"][0], _tz="Etc/GMT-12")], dict(m2, zhist=zh + "e"), True))
            out.append((["create", dict(root="", fmts=meta["fsets"][0], _tz="Etc/GMT+11")], dict(m2, zhist=zh + "w"), True))
        if meta.get("rich"):
            out.append((c("", ["sha1"], n=True), m2, True))
            out.append((c("", ["xxh64"], sf=["d"]), m2, True))
    if g >= 1 and meta["edits"] < meta["max_edits"] and g < mg:
        m3 = dict(meta, edits=meta["edits"] + 1)
        if meta.get("retype"):
            # a recorded path changes its kind: the folder d becomes a file, the file a.txt a folder (and back)
            for f in ("a.txt", "d"):
                if f in med:
                    out.append((["retype", f], m3, True))
            return out
        for f in ("a.txt", "d/b.txt"):
            if f in med:
                out.append((["write", f, ALT[f] if med[f] == T[f] else T[f]], m3, True))
        if "n.txt" not in med:
            out.append((["write", "n.txt", b"new file"], m3, True))
        if "d/b.txt" in med:
            out.append((["rm", "d/b.txt"], m3, True))
    return out


def expected_flat(tree):
    """{path: {format: digest}}: per file path ever recorded, per format ever recorded, the earliest non-failed digest"""
    exp = {}
    ever = {}
    for g in ref.generations(tree, ""):
        m = ref.read_manifest(g["bytes"])
        for rec in m["records"]:
            if rec["kind"] != "file":
                continue
            for h in rec["hashes"]:
                ever.setdefault(rec["path"], set()).add(h["format"])
                if h["action"] != "failed":
                    exp.setdefault(rec["path"], {}).setdefault(h["format"], h["digest"])
    return exp, ever


def flatten_and_judge(ctx, tree, now, case):
    v = []
    stats = {"cmds": 0}
    sig = {"gens": len(ref.generations(tree, ""))}

    def V(kind, detail, **extra):
        v.append(Viol(PROP, kind, dict(sig, **extra), detail, case))

    dest = ctx.fresh("dest")
    sub.materialise(ctx.root, tree)
    # options of flatten itself: extra patterns on the command line / in a pattern file (outside the tree) - none of them
    # matches a recorded path, so the expected records are the same
    extra, given = [], []
    fo = case.get("flatten_opts")
    if fo == "i":
        extra, given = ["-i", "*.bak"], ["*.bak"]
    elif fo == "ii":
        pf = os.path.join(ctx.base, "flatten-patterns.lst")
        with sub.REAL["open"](pf, "w") as f:
            f.write("*.bak\n\nThumbs.db\n")
        extra, given = ["-ii", pf], ["*.bak", "Thumbs.db"]
    elif fo == "i+ii":
        pf = os.path.join(ctx.base, "flatten-patterns.lst")
        with sub.REAL["open"](pf, "w") as f:
            f.write("Thumbs.db")
        extra, given = ["-i", "*.bak", "-ii", pf], ["*.bak", "Thumbs.db"]
    if fo:
        sig["flatten_opts"] = fo
    r = ctx.run("flatten", [ctx.root, dest] + extra, now=now)
    stats["cmds"] += 1
    post = sub.readback(ctx.root)
    out = sub.readback(dest)
    if r.exc is not None or r.exit != 0:
        V("flatten-fails", f"flatten exit {r.exit} {r.exc} {r.tb}\n{r.err[-300:]}", exc=(r.exc or "").split(":")[0] or None)
        return v, stats, (r.exit, "fail")
    if post != tree:
        diff = sorted(p for p in set(post) | set(tree) if post.get(p, 0) != tree.get(p, 0))
        V("source-modified", f"flatten changed the source tree: {diff[:5]}")
    pls = [p for p in out if p.endswith(".mhl")]
    if len(pls) != 1 or not pls[0].split("/")[-1].startswith("packinglist_"):
        V("packing-list-count", f"destination holds {sorted(out)}")
        return v, stats, (r.exit, "count")
    m = ref.read_manifest(out[pls[0]])
    if m["process"] != "flatten":
        V("process-type", f"process type is {m['process']!r}")
    exp, ever = expected_flat(tree)
    got = {}
    for rec in m["records"]:
        if rec["kind"] != "file":
            V("directory-record", f"packing list contains a directory record {rec['path']}")
            continue
        if rec["path"] in got:
            V("duplicate-record", f"two records for {rec['path']}")
        per = got.setdefault(rec["path"], {})
        for h in rec["hashes"]:
            if h["format"] in per:
                V("duplicate-format", f"{rec['path']}: two {h['format']} digests")
            per[h["format"]] = h["digest"]
    if set(got) != set(exp):
        V("record-set", f"packing list records {sorted(got)}, history ever recorded (non-failed) {sorted(exp)}",
          missing=sorted(set(exp) - set(got)), extra=sorted(set(got) - set(exp)))
    for p in set(got) & set(exp):
        if got[p] != exp[p]:
            V("digests", f"{p}: packing list {got[p]}, earliest non-failed per format in the history {exp[p]}",
              fmts_missing=sorted(set(exp[p]) - set(got[p])), fmts_extra=sorted(set(got[p]) - set(exp[p])))
    # verify -pl
    pl = os.path.join(dest, pls[0])
    med = ref.media(tree)
    gens = ref.generations(tree, "")
    eff = list(ref.read_manifest(gens[-1]["bytes"])["ignore"] or ref.DEFAULT_PATTERNS) + given
    files = {p: c for p, c in med.items() if c is not DIR and not ref.ignored(eff, p, False)}   # what verify -pl looks at
    lost = [q for q in eff if q not in (m["ignore"] or [])]
    if lost:
        V("patterns-lost", f"the packing list carries the patterns {m['ignore']}; those in force ({eff}: latest generation + given "
          f"with flatten) lack {lost}")

    def matches(cur):
        if set(cur) != set(got):
            return False
        return all(ref.digest(f, cur[p]) == d for p in got for f, d in got[p].items())
    r2 = ctx.run("verify", [ctx.root, "-pl", pl], now=now + 5)
    stats["cmds"] += 1
    ok = matches(files)
    if r2.exc is not None:
        V("verify-pl-abort", f"verify -pl: {r2.exc} {r2.tb}", exc=r2.exc.split(":")[0])
    elif ok and r2.exit != 0:
        V("verify-pl-rejects-unchanged", f"verify -pl exits {r2.exit} although every listed file has its listed digests and "
          f"nothing else is on disk\n{r2.err[-300:]}", exit=r2.exit)
    elif not ok and r2.exit == 0:
        V("verify-pl-accepts-differing", f"verify -pl exits 0 although the tree differs from the packing list "
          f"(files {sorted(files)}, listed {sorted(got)})")
    if ok:
        for p in sorted(files):
            sub.materialise(ctx.root, ops.edit(tree, ["write", p, files[p] + b"!tampered"]))
            r3 = ctx.run("verify", [ctx.root, "-pl", pl], now=now + 6)
            stats["cmds"] += 1
            if r3.exit == 0:
                V("verify-pl-accepts-altered", f"verify -pl exits 0 after altering {p}")
    sub.rm(dest)
    return v, stats, (r.exit, len(got), "ok" if ok else "differs")


def eval_case(ctx, case):
    return flatten_and_judge(ctx, case["tree"], case["now"], case)[0]


def expand(ctx, item):
    tree, meta, depth = item
    out = []
    now = sub.NOW0 + 10 * depth
    if meta["cmds"] >= 1:
        case = {"tree": tree, "now": now + 3}
        vs, stats, cls = flatten_and_judge(ctx, tree, now + 3, case)
        out.append((["flatten+verify-pl", stats["cmds"]], None, None, vs, ("flatten",) + tuple(cls)))
        for fo in meta.get("flatten_opts", ()):
            case = {"tree": tree, "now": now + 3, "flatten_opts": fo}
            vs, stats, cls = flatten_and_judge(ctx, tree, now + 3, case)
            out.append((["flatten " + fo + "+verify-pl", stats["cmds"]], None, None, vs, ("flatten", fo) + tuple(cls)))
    for op, m2, cont in enabled(tree, meta):
        if ops.is_edit(op):
            out.append((op, ops.edit(tree, op), m2, [], "edit:" + op[0]))
            continue
        res, post = ops.run_cmd(ctx, tree, op, now, tz=op[1].get("_tz"))
        out.append((op, post, m2, [], ("create", res.exit)))
    return out


def lab(op):
    return op[0] if op[0].startswith("flatten") else ops.label(op)


def main(tier, seed):
    eng = engine.Engine(PROP, tier, seed, "model_checking")
    engine.selftest(eng)
    if tier == "quick":
        plans = [dict(max_cmds=3, max_edits=2, fsets=[["xxh64"], ["md5"], ["c4", "md5"]])]
    else:
        plans = [dict(max_cmds=4, max_edits=2, fsets=[["xxh64"], ["md5"], ["c4", "md5"]], rich=True),
                 dict(max_cmds=3, max_edits=2, fsets=[["xxh64"], ["md5"], ["c4", "md5"], ["sha1"], ["xxh3", "xxh128"], ["c4"],
                                                      list(ref.FORMATS_CLI)])]
    # a history with a user pattern and an ignored, never recorded file on disk; flatten plain, with -i, with -ii, with both
    plans.append(dict(max_cmds=2, max_edits=1, fsets=[["xxh64"], ["md5"]], pats=["*.tmp"], flatten_opts=("i", "ii", "i+ii")))
    # generations sealed in different time zones (UTC+12, UTC-11, UTC)
    plans.append(dict(max_cmds=3, max_edits=1, fsets=[["md5"]], zones=True))
    # paths that change their kind (file <-> folder) between generations: records are judged by their own kind
    plans.append(dict(max_cmds=3, max_edits=2 if tier == "thorough" else 1, fsets=[["xxh64"], ["md5"]], retype=True))
    tot = {"states": 0, "transitions": 0}
    runs = []
    for pl in plans:
        meta = dict(cmds=0, edits=0, **pl)
        t0 = dict(T)
        if pl.get("pats"):
            t0.update({"render.tmp": b"ignored, never recorded", "d/cache.tmp": b"ignored too"})
        r = engine.bfs(eng, expand, [(t0, meta, "tree")], max_depth=pl["max_cmds"] + pl["max_edits"] + 1, label=lab,
                       state_cap=200000)
        runs.append(dict({k: v for k, v in pl.items() if k != "fsets"}, format_sets=len(pl["fsets"]), **r))
        tot["states"] += r["states"]
        tot["transitions"] += r["transitions"]
    cov = {"states": tot["states"], "transitions": tot["transitions"], "traces_validated_against_impl": tot["transitions"],
           "exhaustive": not eng.caps, "runs": runs,
           "rule": "BFS over flat histories: create with several format sets, create -sf of single files (partial generations), "
                   "alter / restore / add / remove edits (failed entries, new-format entries); in every state with a history: "
                   "flatten into an empty destination, judge the packing list (one file, process flatten, one record per file "
                   "path ever recorded, per format the earliest non-failed digest, no directory records, source untouched), then "
                   "verify -pl on the tree as it is and after tampering with each file; one plan over a history with a user pattern (ignored "
                   "files on disk) in which flatten also runs with -i, -ii and both: the packing list carries the patterns in force"}
    return eng.finish(cov, eval_case)


def replay(path):
    return engine.replay_file(path, eval_case, PROP)
