"""C06 - histories are append-only and generations are numbered without gaps (engine E1)"""
import datetime
import os
import re

from mc import engine, ref, ops
from mc.engine import Viol
from props import e1

PROP = "C06"
DIR = None
BASE = {"a.txt": b"A", "d": DIR, "d/b.txt": b"B", "e": DIR, "e/c.txt": b"C", "sp ace_\u00fc.v2 (R&D)+#1,'x'": DIR, "sp ace_\u00fc.v2 (R&D)+#1,'x'/s.txt": b"S",
        "Cafe\u0301 \u212b": DIR, "Cafe\u0301 \u212b/n.txt": b"N"}   # (a folder name that is not in Unicode NFC form: decomposed accent, Angstrom sign)


def enabled(tree, meta):
    out = []
    med = ref.media(tree)
    if meta.get("long"):
        # long histories (two-digit generation numbers): a narrow alphabet, many steps
        if meta["cmds"] < meta["max_cmds"]:
            m2 = dict(meta, cmds=meta["cmds"] + 1)
            cont = meta["cmds"] + 1 < meta["max_cmds"]
            out.append((ops.create("", ["xxh64"]), m2, cont))
            if meta["cmds"] in (3, 9, 10):
                out.append((ops.create("", ["md5"], sf=["a.txt"]), m2, cont))
                out.append((ops.create("d", ["md5"]), m2, cont))
        return out
    if meta["cmds"] < meta["max_cmds"]:
        m2 = dict(meta, cmds=meta["cmds"] + 1)
        cont = meta["cmds"] + 1 < meta["max_cmds"]
        cands = [ops.create("", ["xxh64"]), ops.create("", ["c4", "md5"]), ops.create("d", ["md5"]), ops.create("e", ["xxh64"]),
                 ops.create("sp ace_\u00fc.v2 (R&D)+#1,'x'", ["md5"]), ops.create("Cafe\u0301 \u212b", ["md5"])]
        cands += [ops.create("", ["xxh64"], sf=[f]) for f in ("a.txt", "d/b.txt") if f in med]
        if meta.get("rich"):
            cands += [ops.create("", ["sha1"], n=True), ops.create("", ["xxh64"], sf=["d"]), ops.create("", ["md5"], dr=True)]
        for c in cands:
            if c[1]["root"] == "" or c[1]["root"] in med:
                out.append((c, m2, cont))
    if meta["edits"] < meta["max_edits"] and meta["cmds"] >= 1 and meta["cmds"] < meta["max_cmds"]:
        m3 = dict(meta, edits=meta["edits"] + 1)
        for e in (["rm", "a.txt"], ["write", "a.txt", b"A-altered"], ["write", "n.txt", b"N"], ["rm", "d/b.txt"],
                  ["write", "d/b.txt", b"B-altered"]) + ((["retype", "a.txt"], ["retype", "n.txt"]) if meta.get("rich") else ()):
            if e[0] in ("rm", "retype") and e[1] not in med:
                continue
            if e[0] == "write" and med.get(e[1]) == e[2]:
                continue
            out.append((e, m3, True))
    return out


def folder_name(hroot):
    return hroot.split("/")[-1] if hroot else "root"


def judge(pre, op, post, res, obs, meta):
    if op[0] != "create":
        return []
    v = []
    sig = {"sf": bool(op[1].get("sf")), "exit": res.exit if res.exit in (0, 10, 11) else "other"}

    def V(kind, detail, **extra):
        v.append(Viol(PROP, kind, dict(sig, **extra), detail))

    # (1) append-only
    for p, b in pre.items():
        if p.endswith(".mhl") and ref.is_in_ascmhl(p):
            if p not in post:
                V("manifest-removed", f"{p} existed before {ops.label(op)} and is gone")
            elif post[p] != b:
                V("manifest-changed", f"{p} changed by {ops.label(op)}")
    # (2) per ascmhl folder
    now = meta.get("_now")
    folders = sorted({p for p, c in post.items() if c is DIR and p.split("/")[-1] == "ascmhl"} |
                     {p for p, c in pre.items() if c is DIR and p.split("/")[-1] == "ascmhl"})
    for af in folders:
        hroot = ref.parent(af)
        before = {p: c for p, c in pre.items() if p.startswith(af + "/")}
        after = {p: c for p, c in post.items() if p.startswith(af + "/")}
        if before == after and af in pre:
            continue
        pre_g = ref.generations(pre, hroot)
        post_g = ref.generations(post, hroot)
        newg = [g for g in post_g if g["path"] not in pre]
        other_new = sorted(set(after) - set(before) - {g["path"] for g in newg} - {af + "/ascmhl_chain.xml"})
        if other_new:
            V("stray-file", f"unexpected new entries in {af}: {other_new}")
        if len(newg) != 1:
            V("new-manifest-count", f"{af} changed but holds {len(newg)} new manifests: {[g['name'] for g in newg]}",
              n=len(newg))
            continue
        g = newg[0]
        want_no = max([x["number"] for x in pre_g], default=0) + 1
        if g["number"] != want_no:
            V("generation-number", f"new manifest {g['name']} has number {g['number']}, expected {want_no}")
        if g["folder"] != folder_name(hroot) or not re.match(r"^\d{4}_", g["name"]):
            V("manifest-name", f"{g['name']} does not match NNNN_{folder_name(hroot)}_<UTC>Z.mhl")
        if now is not None:
            want_t = datetime.datetime.fromtimestamp(now, datetime.timezone.utc).strftime("%Y-%m-%d_%H%M%SZ")
            if g["time"] != want_t:
                V("manifest-time", f"{g['name']} carries {g['time']}, injected UTC time is {want_t}")
        # chain
        cb, ca = ref.chain_of(pre, hroot), ref.chain_of(post, hroot)
        try:
            old = ref.read_chain(cb) if cb is not None else []
            new = ref.read_chain(ca) if ca is not None else None
        except Exception as e:
            V("chain-unreadable", f"{af}/ascmhl_chain.xml: {e}")
            continue
        if new is None:
            V("chain-missing", f"{af} has a new manifest but no chain file")
            continue
        if new[:len(old)] != old:
            V("chain-rewritten", f"earlier chain entries changed in {af}: {old} -> {new[:len(old)]}")
        tail = new[len(old):]
        want = {"sequencenr": str(g["number"]), "path": g["name"], "c4": ref.digest("c4", g["bytes"]), "other": []}
        if tail != [want]:
            V("chain-new-entry", f"{af}: new chain entries {tail}, expected exactly {want}")
        nums = [x["number"] for x in post_g]
        if nums != list(range(1, len(nums) + 1)):
            V("numbering-gap", f"{af}: generation numbers on disk {nums}")
    # (2b) the history at the command's root is always touched: a run that ends with one of the result codes has added its manifest
    # there (also when nothing recordable is left in the folder, or everything is excluded)
    R = op[1].get("root") or ""
    named = op[1].get("sf") or []
    med_pre = ref.media(pre)
    nothing_named = bool(named) and not any(q == x or q.startswith(x + "/") for x in named for q, c in med_pre.items() if c is not DIR)
    if res.exc is None and res.exit in (0, 10, 11) and not nothing_named:   # (-sf of an empty folder names nothing: no history is touched)
        n_new = len([g for g in ref.generations(post, R) if g["path"] not in pre])
        if n_new == 0:
            V("no-generation-at-root", f"{ops.label(op)} (exit {res.exit}): the history of '{R or '.'}' received no new manifest",
              empty=not [p for p in ref.media(pre) if (p.startswith(R + "/") if R else True)])
    # (3) reload with the tool's own loader
    if not v and obs and obs.get("root") and os.path.isdir(obs["root"]):
        try:
            from ascmhl.history import MHLHistory
            top = MHLHistory.load_from_path(obs["root"])

            def walk(h):
                nums = [hl.generation_number for hl in h.hash_lists]
                if nums != list(range(1, len(nums) + 1)):
                    V("reload-order", f"loader yields generations {nums} for {h.get_root_path()}")
                for c in h.child_histories:
                    walk(c)
            walk(top)
        except Exception as e:
            V("reload-failed", f"loader failed on the post-state: {type(e).__name__}: {e}", exc=type(e).__name__)
    return v


def classify(pre, op, post, res):
    return len([p for p in post if p.endswith(".mhl") and p not in pre])


def eval_case(ctx, case):
    return e1.eval_case(ctx, case)


def main(tier, seed):
    eng = engine.Engine(PROP, tier, seed, "model_checking")
    engine.selftest(eng)
    plans = [dict(max_cmds=4, max_edits=1), dict(max_cmds=3, max_edits=1, frozen=True)] if tier == "quick" else \
            [dict(max_cmds=4, max_edits=1), dict(max_cmds=3, max_edits=2, rich=True), dict(max_cmds=3, max_edits=1, frozen=True, rich=True)]
    tot = {"states": 0, "transitions": 0}
    runs = []
    plans.append(dict(max_cmds=12 if tier == "quick" else 14, max_edits=0, long=True))
    # the UTC stamp in the manifest name must not depend on the zone the tool runs in (far from UTC, and a half-hour zone)
    plans.append(dict(max_cmds=2 if tier == "quick" else 3, max_edits=1, tz="Pacific/Kiritimati"))
    if tier != "quick":
        plans.append(dict(max_cmds=3, max_edits=0, tz="America/St_Johns"))
    # ... nor on the calendar: days on which the ISO week-numbering year differs from the year, a leap day, the last seconds of a year
    import calendar
    for ymdhms in ((2024, 12, 30, 12, 0, 0), (2027, 1, 1, 0, 0, 1), (2024, 2, 29, 23, 59, 55), (2025, 12, 31, 23, 59, 45), (1999, 12, 31, 23, 59, 55)):
        plans.append(dict(max_cmds=2, max_edits=0, t0=calendar.timegm(ymdhms + (0, 0, 0))))
    # ... nor on how the root folder is spelled on the command line: '.', 'dir/.', 'dir/', './dir'
    for sp in ("dot", "slashdot", "symlink", "dotdot", "slashslash") + (("slash", "rel") if tier != "quick" else ()):
        plans.append(dict(max_cmds=2 if tier == "quick" else 3, max_edits=0, spell=sp))
    for pl in plans:
        meta = dict(alpha="c06", oracles=["c06"], cmds=0, edits=0, **pl)
        inits = [(dict(BASE), meta, "base"), ({}, meta, "empty-folder")]
        if pl.get("long"):
            inits = [(ops.build(eng.local_ctx(), BASE, [ops.create("d", ["md5"])]), meta, "base+child-history")]
        r = engine.bfs(eng, e1.expand, inits, max_depth=pl["max_cmds"] + pl["max_edits"], label=ops.label,
                       state_cap=400000)
        runs.append(dict(pl, **r))
        tot["states"] += r["states"]
        tot["transitions"] += r["transitions"]
    cov = {"states": tot["states"], "transitions": tot["transitions"], "traces_validated_against_impl": tot["transitions"],
           "exhaustive": not eng.caps, "runs": runs,
           "rule": "(plus one long-history plan: 12-14 consecutive generations in a root and a nested history, -sf and child runs "
                   "interleaved at steps 3/9/10, so that generation numbers pass 9 -> 10) BFS from a bare tree (and an empty folder): create with two format sets, create -sf (root and nested file), "
                   "create in two nested roots, delete/alter/add edits that make later runs exit 10/11; clock +10 s per "
                   "command and frozen clock; a plan run in the zones UTC+14 (thorough: also UTC-3:30); plans with the root spelled '.', 'dir/.' (thorough: also 'dir/', './dir'); after every create: old manifests byte-identical, exactly one new manifest per "
                   "changed ascmhl folder numbered max+1 with the NNNN_<folder>_<UTC>Z.mhl name, chain = old entries + one "
                   "entry matching the new file's bytes, tool's loader yields 1..n"}
    return eng.finish(cov, eval_case)


def replay(path):
    return engine.replay_file(path, eval_case, PROP)
