"""C15 - an interrupted create never damages what was already recorded (engine E3b, crash-point enumeration)"""
from mc import engine, ref, ops, sub, faults
from mc.engine import Viol
from props import c06

PROP = "C15"
DIR = None
T = {"a.txt": b"content of a", "d": DIR, "d/b.txt": b"content of b"}
BIG = dict(T, **{f"m/file{i:02d}.bin": bytes([i]) * (50 + i) for i in range(24)}, **{"m": DIR})
LONG = "L" * 225    # 0001_<225>_2020-07-01_104050Z.mhl = 253 bytes
T3 = dict(T, **{"d/e": DIR, "d/e/c.txt": b"content of c"})


def scenarios(ctx, tier):
    c = ops.create
    S = []

    def add(name, tree, prep, op):
        S.append({"name": name, "pre": ops.build(ctx, tree, prep, expect=[0] * len(prep)), "op": op})
    add("no-history", T, [], c("", ["md5"]))
    add("flat-1-prior", T, [c("", ["md5"])], c("", ["md5"]))
    add("flat-2-prior", T, [c("", ["md5"]), c("", ["xxh64"])], c("", ["md5", "c4"]))
    add("nested-both-exist", T, [c("d", ["md5"]), c("", ["md5"])], c("", ["md5"]))
    add("nested-parent-first-generation", T, [c("d", ["md5"])], c("", ["md5"]))
    add("sf-with-prior", T, [c("", ["md5"])], c("", ["md5"], sf=["a.txt"]))
    add("sf-into-child", T, [c("d", ["md5"]), c("", ["md5"])], c("", ["md5"], sf=["d/b.txt"]))
    add("sf-no-history", T, [], c("", ["md5"], sf=["a.txt"]))
    add("child-only-first-generation", T, [], c("d", ["md5"]))
    # a long history: the chain file is several kilobytes (one more block on disk), generation numbers have two digits
    add("flat-30-prior", T, [c("", ["md5"])] * 30, c("", ["md5"]))
    # a folder whose name is so long that the manifest name still fits into the file name limit but a longer temporary name
    # would not (whether such a folder can be sealed at all is not the point - a kill must not leave a half-written manifest)
    S.append({"name": "long-folder-name-first-generation", "pre": dict(T, **{LONG: DIR, LONG + "/x.txt": b"content of x"}),
              "op": c(LONG, ["md5"]), "may_fail": True, "recover_root": LONG})
    if tier == "thorough":
        add("nested-3-levels", T3, [c("d/e", ["sha1"]), c("d", ["md5"]), c("", ["md5"])], c("", ["md5"]))
        add("nested-3-levels-all-new-parents", T3, [c("d/e", ["sha1"])], c("", ["xxh64"]))
        add("larger-tree", BIG, [c("", ["md5"])], c("", ["md5", "xxh64"]))
        add("larger-tree-first", BIG, [], c("", ["md5"]))
    return S


def run(ctx, tree, op, now):
    return ops.run_cmd(ctx, tree, op, now)


def recover_ops(sc=None):
    r = (sc or {}).get("recover_root", "")
    return [["info", {"root": r}], ["verify", {"root": r}], ops.create(r, ["md5"])]


def judge_state(ctx, sc, crash, lab, base, final, case):
    v = []
    base_exits = [(a[0], b[0]) for a, b in base]
    base_answers = [[x for x in pair if x[1]] for pair in base]   # answers that are failures already without a kill
    pre = sc["pre"]
    sig = {"first_generation": not ref.generations(pre, ""), "nested": len(ref.history_roots(final)) > 1}

    def V(kind, detail, **extra):
        v.append(Viol(PROP, kind, dict(sig, **extra), f"[{sc['name']}, killed {lab}] " + detail, case))

    # (1) previously committed manifests byte-identical
    for p, b in pre.items():
        if p.endswith(".mhl") and ref.is_in_ascmhl(p) and crash.get(p) != b:
            V("old-manifest-damaged", f"{p} {'missing' if p not in crash else 'changed'}")
    # (2) chain still parses and lists every previously committed generation
    for hr in ref.history_roots(pre):
        old = ref.chain_of(pre, hr)
        if old is None:
            continue
        cur = ref.chain_of(crash, hr)
        if cur is None:
            V("chain-lost", f"chain file of history '{hr or '.'}' is gone")
            continue
        try:
            now_e = ref.read_chain(cur)
        except Exception as e:
            V("chain-unparseable", f"chain file of history '{hr or '.'}' does not parse: {str(e)[:100]}")
            continue
        old_e = ref.read_chain(old)
        if now_e[:len(old_e)] != old_e:
            V("chain-entries-lost", f"history '{hr or '.'}': committed entries {len(old_e)}, now {len(now_e)}")
    # (4) a visible manifest of the interrupted generation is complete
    for p, b in crash.items():
        if p.endswith(".mhl") and ref.is_in_ascmhl(p) and p not in pre and b is not DIR:
            if final.get(p) != b:
                V("partial-manifest-visible", f"{p} is visible to the loader with {len(b)} of {len(final.get(p) or b'')} bytes")
    # (3) the next commands load the history normally: exit code that of the pre-state or of the completed run
    for i, rop in enumerate(recover_ops(sc)):
        res, post = run(ctx, crash, rop, sub.NOW0 + 5000)
        if (res.exit, (res.exc or "").split(":")[0]) in base_answers[i]:
            continue   # (a scenario whose command fails the same way without any kill)
        if res.exc is not None or res.exit in (1, 31, 32, 33):
            V("next-command-aborts", f"{rop[0]}: exit {res.exit} {res.exc or ''}\n{res.err[-200:]}", cmd=rop[0],
              exit=res.exit, exc=(res.exc or "").split(":")[0] or None)
        elif res.exit not in base_exits[i]:
            V("next-command-answer", f"{rop[0]}: exit {res.exit}; before the run it was {base_exits[i][0]}, after the completed run "
              f"{base_exits[i][1]}", cmd=rop[0], exit=res.exit)
        elif rop[0] == "create":
            # (5) after the recovering create the append-only / numbering / chain relation holds again
            for x in c06.judge(crash, rop, post, res, {}, {"_now": sub.NOW0 + 5000}):
                V("recovery-" + x.kind, x.detail)
    return v


def first_level(ctx, sc):
    """[(k, tear, lose)] - one representative crash point per distinct crash state of the scenario's run"""
    res, log, final = faults.record(ctx, sc["pre"], sc["op"], sub.NOW0 + 1000)
    out, seen = [], {engine.canon(sc["pre"]), engine.canon(final)}
    for k, tear in faults.crash_points(log):
        for lose in ((False, True) if faults.has_open_files(log[:k]) else (False,)):
            key = engine.canon(faults.apply_log(sc["pre"], log[:k], tear, lose_buffers=lose))
            if key not in seen:
                seen.add(key)
                out.append([k, tear, lose])
    return out


def eval_case(ctx, case):
    sc = case["sc"]
    now = sub.NOW0 + 1000
    if "second" in case:
        # the run is repeated on what a first kill left behind, and killed again (two faults in a row)
        k1, tear1, lose1 = case["second"]
        res1, log1, final1 = faults.record(ctx, sc["pre"], sc["op"], now)
        s1 = faults.apply_log(sc["pre"], log1[:k1], tear1, lose_buffers=lose1)
        sc = {"name": sc["name"] + " [run again after a first kill " + faults.label(log1, k1, tear1) +
              (", unflushed data lost" if lose1 else "") + "]", "pre": s1, "op": sc["op"]}
        now = sub.NOW0 + 2000
    res, log, final = faults.record(ctx, sc["pre"], sc["op"], now)
    if res.exit != 0 and not sc.get("may_fail"):
        if "second" in case:   # how the repeated run answers is judged by the first level (recovery commands)
            return [], 0, len(log), 0
        return [Viol(PROP, "uninterrupted-run-fails", {}, f"{sc['name']}: exit {res.exit} {res.exc}", case)], 0, len(log), 0
    base = []
    for rop in recover_ops(sc):
        a, _ = run(ctx, sc["pre"], rop, sub.NOW0 + 5000)
        b, _ = run(ctx, final, rop, sub.NOW0 + 5000)
        base.append(((a.exit, (a.exc or "").split(":")[0]), (b.exit, (b.exc or "").split(":")[0])))
    dense = (lambda o: o[1].endswith("ascmhl_chain.xml") or o[1].endswith(".xml.tmp")) if case.get("dense") else None
    pts = faults.crash_points(log, dense)
    if "only" in case:
        pts = [p for p in pts if list(p) == list(case["only"])]
    if case.get("interrupt"):
        pts = []   # (the replay of one interruption point)
    seen = set()
    v = []
    n = 0
    for k, tear in pts:
        for lose in ((False, True) if faults.has_open_files(log[:k]) else (False,)):
            if "only_lose" in case and lose != case["only_lose"]:
                continue
            crash = faults.apply_log(sc["pre"], log[:k], tear, lose_buffers=lose)
            key = engine.canon(crash) + str(hash(frozenset((p, c) for p, c in crash.items() if ref.is_in_ascmhl(p))))
            if key in seen:
                continue
            seen.add(key)
            n += 1
            one = dict(case, only=[k, tear], only_lose=lose)
            lab = faults.label(log, k, tear) + (" (unflushed data of open files lost)" if lose else "")
            v += judge_state(ctx, sc, crash, lab, base, final, one)
    # the other way a run is interrupted: from inside (Ctrl-C, a failing write) - an exception unwinds the interpreter, finally
    # blocks and context managers run, open files are flushed and closed.  Every operation of the log is an interruption point
    # (a write also half-way); the tree that is left is judged like a crash state.
    if "second" not in case and "only" not in case or case.get("interrupt"):
        ipts = []
        for k in range(len(log)):
            ipts.append((k, None))
            if log[k][0] == "write" and len(log[k][2]) > 1 and (log[k][1].endswith(".xml") or log[k][1].endswith(".tmp") or log[k][1].endswith(".mhl")):
                ipts.append((k, len(log[k][2]) // 2))
        if case.get("interrupt"):
            ipts = [p for p in ipts if list(p) == list(case["interrupt"])]
        for k, tear in ipts:
            r2, log2, state = faults.record(ctx, sc["pre"], sc["op"], now, interrupt_at=(k, tear))
            key = "i" + engine.canon(state) + str(hash(frozenset((p, c) for p, c in state.items() if ref.is_in_ascmhl(p))))
            if key in seen or state == final or state == sc["pre"]:
                continue
            seen.add(key)
            n += 1
            one = dict(case, interrupt=[k, tear])
            o = log[k]
            lab = f"interrupted (KeyboardInterrupt) before op {k + 1}/{len(log)}: {o[0]} {o[1]}" + (f" after {tear} bytes" if tear else "")
            v += judge_state(ctx, sc, state, lab, base, final, one)
    return v, n, len(log), len(pts)


def work(ctx, case):
    return eval_case(ctx, case)


def _eval_only(ctx, case):
    return eval_case(ctx, case)[0]


def main(tier, seed):
    eng = engine.Engine(PROP, tier, seed, "fault_enumeration")
    engine.selftest(eng)
    S = engine.scenarios(eng, lambda: scenarios(eng.local_ctx(), tier))
    S = [sc for sc in S if sc["pre"] is not None]
    if not S:
        raise engine.HarnessError("no scenario could be prepared: " + str(eng.notes.get("skipped_scenarios")))
    cases = [{"sc": sc, "dense": tier == "thorough" and sc["name"] in ("flat-1-prior", "nested-both-exist", "no-history")} for sc in S]
    # two kills in a row: every distinct state a first kill leaves behind is the starting point of a second, interrupted run
    two = ("no-history", "flat-1-prior", "nested-parent-first-generation", "sf-no-history", "child-only-first-generation")
    n_first = len(cases)
    for sc in S:
        if tier == "thorough" and not sc["name"].startswith("larger") or sc["name"] in two:
            for pt in first_level(eng.local_ctx(), sc):
                cases.append({"sc": sc, "second": pt})
    res = eng.pmap(work, cases, chunksize=1)
    states = evals = states2 = 0
    for case, (vs, n, nlog, npts) in zip(cases, res):
        eng.add_viols(vs)
        states += n
        evals += n * 3
        if "second" in case:
            states2 += n
            eng.outcome((case["sc"]["name"], "second kill", "viol" if vs else "ok"))
            continue
        eng.outcome((case["sc"]["name"], nlog, "viol" if vs else "ok"))
        eng.sample({"scenario": case["sc"]["name"], "op": ops.label(case["sc"]["op"]), "logged_operations": nlog,
                    "crash_points": npts, "distinct_crash_states": n}, limit=20)
    cov = {"evaluations": evals, "distinct_nontrivial": states, "exhaustive": True, "scenarios": [sc["name"] for sc in S],
           "second_kill_start_states": len(cases) - n_first, "second_kill_crash_states": states2,
           "rule": "for each scenario (no history, 1 and 2 prior generations, nested with both / only the child history existing, "
                   "-sf with prior generation / into a child / without history, first generation of a child; thorough: three levels, "
                   "larger trees) one uninterrupted create is logged (mkdir, open, write, flush, close, replace, remove; cross-checked "
                   "against audit events and by replaying the log); EVERY prefix of the log is a crash point, a write in flight is "
                   "torn at 1 byte / half / all-but-one / every 4 KiB (thorough: every byte of the chain rewrite); each distinct crash "
                   "state is materialised and recovered with info, verify and create; distinct = distinct crash states; two kills in a "
                   "row: from every distinct state a first kill leaves behind (quick: 5 scenarios, thorough: all but the larger trees) "
                   "the same run is repeated 1000 s later, logged and killed at every point again, same oracle with the first crash state "
                   "as 'what was already recorded'"}
    eng.assumptions += ["crash model: process kill - completed operations persist in program order, the write in flight may be cut at "
                        "any stream prefix, and the unflushed data of every file that is still open may be lost entirely (also after a "
                        "rename of that file); power-loss reordering of unsynced blocks is not modelled (the tool never syncs)",
                        "a complete but not yet chained manifest counts as 'present'; an ascmhl folder that holds no manifest and no "
                        "chain is 'no history yet'"]
    return eng.finish(cov, _eval_only)


def replay(path):
    return engine.replay_file(path, _eval_only, PROP)
