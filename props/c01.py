"""C01 - file digests are the standard algorithms over the exact file bytes (engine E2, bounded-exhaustive)"""
import itertools
import os
import re

from mc import engine, ref, ops, sub
from mc.engine import Viol

PROP = "C01"
MB = 1 << 20
# (3..241: the input-length classes of the XXH3 family: 1-3, 4-8, 9-16, 17-128, 129-240, > 240 bytes; 1024/1025: its stripe block)
LENGTHS = [0, 1, 2, 3, 4, 8, 9, 16, 17, 128, 129, 240, 241, 1024, 1025, MB - 1, MB, MB + 1, 2 * MB - 1, 2 * MB, 2 * MB + 1, 3 * MB + 17]
KINDS = ["zeros", "ff", "pattern"]


def content(kind, n):
    if kind == "zeros":
        return bytes(n)
    if kind == "ff":
        return b"\xff" * n
    # position dependent and different in every MiB: dropped / duplicated / reordered chunks change the digest
    base = bytes((i ^ (i >> 8)) & 0xFF for i in range(min(n, 1 << 16)))
    out = bytearray()
    mib = 0
    while len(out) < n:
        blk = bytearray()
        while len(blk) < min(MB, n - len(out)):
            blk += base
        blk = blk[:min(MB, n - len(out))]
        k = (37 * mib + 1) & 0xFF
        blk = bytes(b ^ k for b in blk[:4096]) + bytes(blk[4096:])
        out += blk
        mib += 1
    return bytes(out[:n])


def lenclass(n):
    return "small" if n < MB - 1 else ("chunk-boundary" if n <= MB + 1 else "multi-chunk")


def format_sets(tier):
    fl = ref.FORMATS_LIB
    if tier == "quick":
        sets = [[f] for f in fl] + [list(c) for c in itertools.combinations(fl, 2)] + [list(fl)]
        return [(s, "asc") for s in sets] + [(list(reversed(fl)), "desc")]
    out = []
    for n in range(1, len(fl) + 1):
        for c in itertools.combinations(fl, n):
            out.append((list(c), "asc"))
            if n > 1:
                out.append((list(reversed(c)), "desc"))
    return out


def eval_case(ctx, case):
    """case: {len, kind, sets: [(fmts, order)], cli: bool}"""
    from ascmhl import hasher as H
    n, kind = case["len"], case["kind"]
    data = content(kind, n) if "data" not in case else case["data"]
    v = []
    stats = {"evals": 0, "distinct": set()}
    want = {f: ref.digest(f, data) for f in ref.FORMATS_LIB}
    base_sig = {"len": lenclass(n)}

    def chk(entry, fmt, got, nset=1, extra=""):
        stats["evals"] += 1
        stats["distinct"].add((n, kind, entry, fmt, nset))
        if got != want[fmt]:
            v.append(Viol(PROP, "digest-mismatch", dict(base_sig, entry=entry, fmt=fmt, multi=nset > 1),
                          f"{entry} {fmt} over {n} bytes of {kind}{extra}: got {got}, standard digest {want[fmt]}", case))

    path = os.path.join(ctx.fresh("c01"), "blob.bin")
    with sub.REAL["open"](path, "wb") as f:
        f.write(data)
    try:
        for fmt in ref.FORMATS_LIB:
            chk("hash_file", fmt, H.hash_file(path, fmt))
            chk("hash_data", fmt, H.hash_data(data, fmt))
            raw = H.bytes_for_hash_string(want[fmt], fmt)
            stats["evals"] += 1
            if raw != ref.raw_of(fmt, want[fmt]):
                v.append(Viol(PROP, "decode-mismatch", dict(base_sig, fmt=fmt), f"bytes_for_hash_string({want[fmt]}, {fmt}) = {raw.hex()}", case))
            # streaming update split at every boundary length
            for k in ([x for x in LENGTHS if 0 < x < n and x >= MB - 1] + [x for x in (1, 16, 240) if x < n])[:6] + ([n // 2] if n > 1 else []):
                hs = H.new_hasher_for_hash_type(fmt)
                hs.update(data[:k])
                hs.update(data[k:])
                chk("streaming", fmt, hs.string_digest(), extra=f" split at {k}")
                # a running digest (digest - update - digest on the same object) is the digest of the bytes fed so far
                hs = H.new_hasher_for_hash_type(fmt)
                hs.update(data[:k])
                mid = hs.string_digest()
                stats["evals"] += 1
                if mid != ref.digest(fmt, data[:k]):
                    v.append(Viol(PROP, "digest-mismatch", dict(base_sig, entry="streaming-running", fmt=fmt, multi=False),
                                  f"running {fmt} digest after the first {k} of {n} bytes: {mid}, standard {ref.digest(fmt, data[:k])}", case))
                hs.update(data[k:])
                chk("streaming-running", fmt, hs.string_digest(), extra=f" digest taken at {k}, then updated")
                chk("streaming-running", fmt, hs.string_digest(), extra=f" digest asked twice")
        for fmts, order in case["sets"]:
            got = H.multiple_format_hash_file(path, list(fmts))
            if set(got) != set(fmts):
                v.append(Viol(PROP, "format-set", dict(base_sig, entry="multiple_format_hash_file"),
                              f"multiple_format_hash_file({fmts}) returned keys {sorted(got)}", case))
            for f, d in got.items():
                if f in want:
                    chk("multiple_format_hash_file", f, d, len(fmts), f" in set {fmts}")
            got = H.multiple_format_hash_data(data, list(fmts))
            if set(got) != set(fmts):
                v.append(Viol(PROP, "format-set", dict(base_sig, entry="multiple_format_hash_data"),
                              f"multiple_format_hash_data({fmts}) returned keys {sorted(got)}", case))
            for f, d in got.items():
                if f in want:
                    chk("multiple_format_hash_data", f, d, len(fmts), f" in set {fmts}")
        if case.get("cli"):
            for fmt in ref.FORMATS_CLI:
                r = ctx.run("hash", [path, "-h", fmt])
                # the printed digest is found by its shape, not by the wording around it
                toks = re.findall(r"c4[1-9A-HJ-NP-Za-km-z]{88}" if fmt == "c4" else r"\b[0-9a-fA-F]{%d}\b" % len(want[fmt]), r.out)
                chk("cli-hash", fmt, want[fmt] if want[fmt] in toks else (toks[-1] if toks else f"<no digest in output: {r.out!r} exit {r.exit}>"))
            tree = {"blob.bin": data, "second.bin": data[: n // 2]}
            res, post = ops.run_cmd(ctx, tree, ops.create("", ref.FORMATS_CLI), sub.NOW0)
            stats["evals"] += 1
            if res.exit != 0:
                v.append(Viol(PROP, "create-fails", base_sig, f"create with six formats on a {n}-byte file: exit {res.exit} {res.exc}", case))
            else:
                m = ref.read_manifest(ref.generations(post, "")[0]["bytes"])
                for rec in m["records"]:
                    if rec["path"] == "blob.bin":
                        for h in rec["hashes"]:
                            chk("create", h["format"], h["digest"], 6)
                r2 = ctx.run("verify", [ctx.root], now=sub.NOW0 + 5)
                stats["evals"] += 1
                if r2.exit != 0:
                    v.append(Viol(PROP, "verify-untouched-fails", base_sig, f"verify of the untouched {n}-byte file exits {r2.exit}\n{r2.err[-300:]}", case))
                for fmt in ("md5", "c4"):
                    res3, post3 = ops.run_cmd(ctx, tree, ops.create("", [fmt]), sub.NOW0)
                    for rec in ref.read_manifest(ref.generations(post3, "")[0]["bytes"])["records"]:
                        if rec["path"] == "blob.bin":
                            for h in rec["hashes"]:
                                chk("create", h["format"], h["digest"], 1)
        # ... nor on how the file is reached: through a symbolic link (whose own size is that of its target text) the bytes are the same
        if case.get("cli"):
            link = os.path.join(os.path.dirname(path), "link-to-blob")
            os.symlink(path, link)
            for fmt in ref.FORMATS_LIB:
                chk("hash_file-through-symlink", fmt, H.hash_file(link, fmt))
            for f, d in H.multiple_format_hash_file(link, list(ref.FORMATS_LIB)).items():
                chk("multiple_format_hash_file-through-symlink", f, d, 7)
            os.remove(link)
        # the digest depends on the bytes only: the same path rewritten in place with other bytes of the same length, same inode,
        # size and (restored) mtime must hash to the digest of the NEW bytes - in the same process
        if n > 0 and case.get("cli"):
            st = os.stat(path)
            data2 = bytes([data[0] ^ 0x5A]) + data[1:-1] + (bytes([data[-1] ^ 0xA5]) if n > 1 else b"")
            with sub.REAL["open"](path, "r+b") as f:
                f.write(data2)
            os.utime(path, ns=(st.st_atime_ns, st.st_mtime_ns))
            st2 = os.stat(path)
            if (st2.st_ino, st2.st_size, st2.st_mtime_ns) == (st.st_ino, st.st_size, st.st_mtime_ns):
                want = {f: ref.digest(f, data2) for f in ref.FORMATS_LIB}
                for fmt in ref.FORMATS_LIB:
                    chk("hash_file-after-rewrite", fmt, H.hash_file(path, fmt), extra=" (rewritten in place, same size and mtime)")
                for f, d in H.multiple_format_hash_file(path, list(ref.FORMATS_LIB)).items():
                    chk("multiple_format_hash_file-after-rewrite", f, d, 7, " (rewritten in place, same size and mtime)")
                r = ctx.run("hash", [path, "-h", "md5"])
                chk("cli-hash-after-rewrite", "md5", want["md5"] if want["md5"] in r.out else f"<{r.out.strip()[-80:]}>")
    finally:
        sub.rm(os.path.dirname(path))
    return v, stats["evals"], len(stats["distinct"])


def many_files(ctx, case):
    """one create over many files of different lengths: every recorded digest is the digest of that file alone"""
    v = []
    tree = {}
    for i in range(case["many"]):
        n = [0, 1, 7, 100, 4096, 65537][i % 6] + i
        tree[f"f{i:02d}.bin"] = content("pattern", n + (MB if i in (5, 17) else 0))
    tree["sub"] = None
    for i in range(6):
        tree[f"sub/g{i}.bin"] = bytes([i]) * (i * 1000)
    evals = 0
    for fmts in (["md5"], list(ref.FORMATS_CLI)):
        res, post = ops.run_cmd(ctx, tree, ops.create("", fmts), sub.NOW0)
        if res.exit != 0:
            v.append(Viol(PROP, "create-fails", {"len": "many"}, f"create over {len(tree)} files exits {res.exit} {res.exc}", case))
            continue
        m = ref.read_manifest(ref.generations(post, "")[0]["bytes"])
        for rec in m["records"]:
            if rec["kind"] != "file":
                continue
            for h in rec["hashes"]:
                evals += 1
                want = ref.digest(h["format"], tree[rec["path"]])
                if h["digest"] != want:
                    v.append(Viol(PROP, "digest-mismatch", {"len": "many-files", "entry": "create", "fmt": h["format"], "multi": len(fmts) > 1},
                                  f"create over {len(tree)} files, {rec['path']} {h['format']}: {h['digest']}, standard digest {want}", case))
        r2 = ctx.run("verify", [ctx.root], now=sub.NOW0 + 5)
        evals += 1
        if r2.exit != 0:
            v.append(Viol(PROP, "verify-untouched-fails", {"len": "many-files"}, f"verify of {len(tree)} untouched files exits {r2.exit}", case))
    return v, evals, evals


def c4_family():
    vals = {0, 1, (1 << 512) - 1}
    for k in range(0, 89):
        for d in (-1, 0, 1):
            x = 58 ** k + d
            if 0 <= x < (1 << 512):
                vals.add(x)
        for d in range(1, 58):
            x = d * 58 ** k
            if x < (1 << 512):
                vals.add(x)
    for k in range(0, 513):
        for d in (-1, 0, 1):
            x = (1 << k) + d
            if 0 <= x < (1 << 512):
                vals.add(x)
    return sorted(vals)


class _Stub:
    def __init__(self, value):
        self.value = value

    def hexdigest(self):
        return "%0128x" % self.value

    def digest(self):
        return self.value.to_bytes(64, "big")

    def update(self, b):
        pass


def _inject(H, x):
    """the tool's C4 text of an arbitrary 512-bit value: a normally constructed C4 hasher whose SHA-512 object is swapped"""
    c = H.new_hasher_for_hash_type("c4")
    c.hasher = _Stub(x)
    return c.string_digest()


def injection_works(H):
    """the seam relies on one internal (the attribute holding the SHA-512 object); it is only used when it reproduces the
    tool's own answers for real digests - otherwise the codec is driven through the public entry points only"""
    import hashlib
    try:
        for d in (b"", b"abc", padded_inputs()[2][0]):
            if _inject(H, int.from_bytes(hashlib.sha512(d).digest(), "big")) != H.hash_data(d, "c4"):
                return False
        return True
    except Exception:
        return False


_PADDED = []


def padded_inputs():
    """real inputs whose C4 text has 0, 1, 2, 3 leading zero digits ('1'), found by counting upwards (deterministic)"""
    if not _PADDED:
        import hashlib
        found = {}
        i = 0
        while len(found) < 4 or min(len(x) for x in found.values()) < 3:
            d = b"pad-%d" % i
            i += 1
            x = int.from_bytes(hashlib.sha512(d).digest(), "big")
            k = 0
            while k < 3 and x < 58 ** (87 - k):
                k += 1
            if len(found.setdefault(k, [])) < 3:
                found[k].append(d)
            if i > 3_000_000:
                break
        _PADDED.extend(found.get(k, []) for k in range(4))
    return _PADDED


def c4_public(ctx, case):
    """encoder and decoder through public entry points on real inputs with 0..3 leading zero digits"""
    from ascmhl import hasher as H
    import hashlib
    v = []
    n = 0
    for k, ins in enumerate(padded_inputs()):
        for d in ins:
            raw = hashlib.sha512(d).digest()
            want = ref.c4_encode(raw)
            path = os.path.join(ctx.fresh("c01p"), "p.bin")
            with sub.REAL["open"](path, "wb") as f:
                f.write(d)
            gots = {"hash_data": H.hash_data(d, "c4"), "hash_file": H.hash_file(path, "c4"),
                    "multiple_format_hash_file": H.multiple_format_hash_file(path, ["md5", "c4"]).get("c4")}
            hs = H.new_hasher_for_hash_type("c4")
            hs.update(d)
            gots["streaming"] = hs.string_digest()
            for entry, got in gots.items():
                n += 1
                if got != want:
                    v.append(Viol(PROP, "c4-encode", {"cls": "leading-zero-digits" if k else "full-width", "entry": entry},
                                  f"{entry} c4 of {d!r} ({k} leading zero digits): got {got!r}, expected {want!r}", case))
            n += 1
            try:
                back = H.bytes_for_hash_string(want, "c4")
            except Exception as e:
                back = repr(e).encode()
            if back != raw:
                v.append(Viol(PROP, "c4-decode", {"cls": "leading-zero-digits" if k else "full-width", "entry": "bytes_for_hash_string"},
                              f"bytes_for_hash_string of {want} = {back[:70]!r}", case))
    return v, n, n


def c4_codec(ctx, vals):
    from ascmhl import hasher as H
    v = []
    inject = injection_works(H)
    for x in vals:
        raw = x.to_bytes(64, "big")
        want = ref.c4_encode(raw)
        cls = "leading-zero-digits" if want[2] == "1" else "full-width"
        case = {"c4_value": "%x" % x}
        if not inject:
            # decoder only (public): decode(reference text) == value
            try:
                back = H.bytes_for_hash_string(want, "c4")
            except Exception as e:
                back = repr(e).encode()
            if back != raw:
                v.append(Viol(PROP, "c4-decode", {"cls": cls, "entry": "bytes_for_hash_string"}, f"bytes_for_hash_string of {want} = {back[:70]!r}", case))
            continue
        try:
            got = _inject(H, x)
        except Exception as e:
            got = f"<{type(e).__name__}: {e}>"
        want = ref.c4_encode(raw)
        cls = "leading-zero-digits" if want[2] == "1" else "full-width"
        case = {"c4_value": "%x" % x}
        if got != want or len(got) != 90 or not got.startswith("c4") or any(ch not in ref.C4_CHARSET for ch in got[2:]):
            v.append(Viol(PROP, "c4-encode", {"cls": cls}, f"C4 text of {x:#x}: got {got!r} (len {len(got)}), expected {want!r}", case))
            continue
        back = H.C4.bytes_from_string_digest(got)
        if back != raw:
            v.append(Viol(PROP, "c4-decode", {"cls": cls}, f"decode(encode({x:#x})) = {back.hex()}", case))
        if H.bytes_for_hash_string(want, "c4") != raw:
            v.append(Viol(PROP, "c4-decode", {"cls": cls, "entry": "bytes_for_hash_string"}, f"bytes_for_hash_string of {want}", case))
    return v, len(vals), inject


def work(ctx, case):
    if "many" in case:
        return many_files(ctx, case)
    if "c4_public" in case:
        return c4_public(ctx, case)
    if "c4_values" in case:
        vs, n, inj = c4_codec(ctx, case["c4_values"])
        return vs, n, n if inj else -n
    return eval_case(ctx, case)


def _eval_only(ctx, case):
    if "many" in case:
        return many_files(ctx, case)[0]
    if "c4_value" in case:
        return c4_codec(ctx, [int(case["c4_value"], 16)])[0]
    if "c4_public" in case:
        return c4_public(ctx, case)[0]
    return eval_case(ctx, case)[0]


def main(tier, seed):
    eng = engine.Engine(PROP, tier, seed, "exploration")
    engine.selftest(eng)
    sets = format_sets(tier)
    kinds = list(KINDS)
    cases = []
    lengths = LENGTHS + ([4 * MB - 1, 4 * MB, 4 * MB + 1, 7 * MB + 5] if tier == "thorough" else [])
    for n in lengths:
        for kind in kinds:
            chunk = 12 if n > MB // 2 else 60
            for i in range(0, len(sets), chunk):
                cases.append({"len": n, "kind": kind, "sets": sets[i:i + chunk],
                              "cli": i == 0})
    # large files (many read blocks; sizes at which an implementation may switch strategy) with one, two, three and all formats
    fl = ref.FORMATS_LIB
    for n in (8 * MB - 1, 8 * MB, 8 * MB + 1) + ((16 * MB + 3, 32 * MB + 1) if tier == "thorough" else ()):
        cases.append({"len": n, "kind": kinds[0], "cli": True,
                      "sets": [(list(fl), "asc"), (list(fl[:3]), "asc"), (list(fl[-3:]), "desc"), ([fl[0]], "asc"), ([fl[0], fl[-1]], "asc")]})
    # all byte strings of length <= 2 over {00, 0A, 61, FF}
    small = [b""] + [bytes(t) for r in (1, 2) for t in itertools.product([0x00, 0x0A, 0x61, 0xFF], repeat=r)]
    for d in small:
        cases.append({"len": len(d), "kind": "enum:" + d.hex(), "data": d, "sets": [(list(ref.FORMATS_LIB), "asc")], "cli": tier == "thorough"})
    cases.append({"many": 24})
    if tier == "thorough":
        cases.append({"many": 150})
    fam = c4_family()
    for i in range(0, len(fam), 500):
        cases.append({"c4_values": fam[i:i + 500]})
    cases.append({"c4_public": True})
    cases.sort(key=lambda c: -c.get("len", 0))
    res = eng.pmap(work, cases, chunksize=1)
    evals = distinct = 0
    for case, (vs, ne, nd) in zip(cases, res):
        eng.add_viols(vs)
        evals += ne
        if nd < 0:
            eng.notes["c4_encoder_injection"] = "unavailable on this tree (internal attribute differs): decoder over the whole family, encoder over real inputs with 0..3 leading zero digits only"
        distinct += abs(nd)
        eng.outcome(("c4-public" if "c4_public" in case else "c4-codec" if "c4_values" in case else ("many-files" if "many" in case else lenclass(case["len"])), "viol" if vs else "ok"))
    eng.sample({"length": 3 * MB + 17, "content": "pattern", "format_set": sets[-1][0], "entry_points":
                ["hash_file", "hash_data", "streaming", "multiple_format_hash_file", "multiple_format_hash_data", "cli-hash", "create", "verify"]})
    eng.sample({"length": MB, "content": "ff", "format_set": sets[0][0]})
    eng.sample({"c4_value_hex": "%x" % fam[len(fam) // 2]})
    cov = {"evaluations": evals, "distinct_nontrivial": distinct, "exhaustive": True, "format_sets": len(sets),
           "lengths": lengths, "contents": kinds, "c4_codec_values": len(fam),
           "rule": "product lengths {0,1,2, the XXH3 length classes 3,4,8,9,16,17,128,129,240,241,1024,1025, 1MiB-1, 1MiB, 1MiB+1, 2MiB-1, 2MiB, 2MiB+1, 3MiB+17} x contents x format sets (quick: "
                   "singletons, pairs, full set + reversed; thorough: all 127 non-empty subsets of the 7 library formats in "
                   "ascending and descending order) x entry points {hash_file, hash_data, streaming update split at each boundary, "
                   "multiple_format_hash_file, multiple_format_hash_data, bytes_for_hash_string, ascmhl-debug hash, create, verify; the same path "
                   "hashed again after it was rewritten in place with the same length, inode and mtime, and through a symbolic link}; "
                   "all byte strings of length <=2 over {00,0A,61,FF}; C4 codec driven with a stub hasher over the structured "
                   "512-bit family; distinct = distinct (length, content, entry point, format, set size) combinations compared "
                   "with hashlib/xxhash one-shot digests and the own base-58 codec"}
    eng.assumptions += ["hashlib and the xxhash C library are the reference implementations of the algorithms; known-answer vectors "
                        "for the empty input pin the name -> algorithm binding"]
    return eng.finish(cov, _eval_only)


def replay(path):
    return engine.replay_file(path, _eval_only, PROP)
