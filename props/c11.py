"""C11 - every file the tool writes is valid against the published schemas (engine E1/E2, always-on invariant)"""
import os

from lxml import etree

from mc import engine, ref, ops, sub
from mc.engine import Viol

PROP = "C11"
DIR = None
XSD_DIR = "/repo/xsd"
_schemas = {}

TREES = {
    "empty-folder": {},
    "single-empty-file": {"e.dat": b""},
    "flat": {"a.txt": b"A", "b b.txt": b"B", "x.tmp": b"tmp", "patterns.lst": b"*.tmp\nsub/\n"},
    "nested": {"a.txt": b"A", "d": DIR, "d/c.txt": b"C", "d/e": DIR, "d/e/f.txt": b"F", "emp": DIR, "patterns.lst": b"*.tmp\n",
               "sub": DIR, "sub/s.txt": b"S"},
    # folder and file names with the characters XML reserves (a folder's name becomes part of its manifests' names, which the
    # chain file lists)
    "xml-special-names": {"Sound R&D": DIR, "Sound R&D/s<1>.txt": b"S", "it's \"q\"": DIR, "it's \"q\"/x.txt": b"X", "a&b.txt": b"A"},
}
CREATOR = [[], ["--author_name", "Jane Doe"], ["--author_email", "jane@example.com"], ["--author_phone", "+1 555 0100"],
           ["--author_role", "DIT"], ["--location", "Stage 5, Munich"], ["--comment", "a <comment> & more"],
           ["--author_name", "Jane Doe", "--author_email", "jane@example.com", "--author_phone", "+1 555 0100",
            "--author_role", "DIT", "--location", "Stage 5", "--comment", "all of it"]]


def schema(kind):
    if kind not in _schemas:
        f = "ASCMHL.xsd" if kind == "manifest" else "ASCMHLDirectory__combined.xsd"
        _schemas[kind] = etree.XMLSchema(etree.parse(os.path.join(XSD_DIR, f)))
    return _schemas[kind]


def validate(kind, data):
    try:
        doc = etree.fromstring(data)
    except etree.XMLSyntaxError as e:
        return "not well-formed: " + str(e)[:200]
    s = schema(kind)
    if s.validate(doc):
        return None
    return "; ".join(f"line {e.line}: {e.message}" for e in list(s.error_log)[:3])[:500]


def kind_of(path):
    n = path.split("/")[-1]
    if n.endswith(".mhl"):
        return "manifest"
    if n in ("ascmhl_chain.xml", "ascmhl_collection.xml"):
        return "directory"
    return None


def check_files(files, desc, sig, case):
    v = []
    for p, data in files:
        k = kind_of(p)
        if k is None or data is DIR:
            continue
        err = validate(k, data)
        if err:
            cls = "empty-hashes" if "hashes" in err and "Missing child" in err else \
                  ("empty-roothash" if "roothash" in err or "content" in err and "Missing child" in err else "other")
            v.append(Viol(PROP, "schema-invalid", dict(sig, file=k, cls=cls), f"{desc}: {p} does not validate: {err}", case))
    return v


def sig_of(op):
    o = op[1]
    if op[0] == "flatten":
        return {"cmd": "flatten"}
    return {"cmd": "create", "mode": "sf" if o.get("sf") else ("n" if o.get("n") else "folder")}


def run_case(ctx, pre, op, now, tz=None):
    """execute one transition; returns (res, post, violations)"""
    case = {"pre": pre, "op": op, "now": now}
    if tz:
        case["tz"] = tz
    if op[0] == "flatten":
        dest = ctx.fresh("dest")
        v = []
        sub.materialise(ctx.root, pre)
        res = None
        for i in range(op[1].get("times", 1)):
            name, args = ops.to_args(op)
            res = ctx.run(name, ops.expand_args(args, ctx.root, dest=dest), now=now + i, tz=tz)
            files = sorted(sub.readback(dest).items())
            v += check_files(files, f"{ops.label(op)} (run {i + 1})", dict(sig_of(op), run=i + 1), case)
            if res.exc:
                v.append(Viol(PROP, "abort", dict(sig_of(op), exc=res.exc.split(":")[0]), f"{ops.label(op)}: {res.exc} {res.tb}", case))
        post = sub.readback(ctx.root)
        if post != pre:
            v += check_files([(p, c) for p, c in post.items() if pre.get(p, 0) != c], ops.label(op), sig_of(op), case)
        sub.rm(dest)
        return res, post, v
    res, post = ops.run_cmd(ctx, pre, op, now, tz=tz)
    changed = [(p, c) for p, c in sorted(post.items()) if pre.get(p, 0) != c]
    v = check_files(changed, f"{ops.label(op)} (exit {res.exit})", sig_of(op), case)
    return res, post, v


def eval_case(ctx, case):
    return run_case(ctx, case["pre"], case["op"], case["now"], case.get("tz"))[2]


def enabled(tree, meta):
    out = []
    med = ref.media(tree)
    g, mg = meta["cmds"], meta["max_cmds"]
    if g >= mg:
        return out
    cont = g + 1 < mg
    m2 = dict(meta, cmds=g + 1)
    c = ops.create
    files = sorted(p for p, v in med.items() if v is not DIR)
    dirs = sorted(p for p, v in med.items() if v is DIR)
    cr = [c("", ["xxh64"]), c("", ["c4", "md5"]), c("", list(ref.FORMATS_CLI)), c("", ["md5", "md5"]), c("", ["sha1"], n=True),
          c("", ["xxh64"], dr=True), c("", ["xxh64"], i=["*.tmp"]), c("", ["xxh64"], i=["*.tmp", "sub/"]),
          c("", ["md5", "xxh128"], n=True, i=["b b.txt"])]
    if "patterns.lst" in med:
        cr.append(c("", ["xxh64"], ii="patterns.lst"))
        cr.append(c("", ["xxh64"], ii="patterns.lst", i=["a.txt"]))
    for f in files[:3]:
        cr.append(c("", ["xxh64"], sf=[f]))
    for f in files:
        if "/" in f:
            cr.append(c("", ["md5"], sf=[f]))
    for d in dirs:
        cr.append(c(d, ["md5"]))
        cr.append(c("", ["xxh64"], sf=[d]))
        inside = [f for f in files if f.startswith(d + "/")]
        if inside:
            cr.append(c("", ["xxh64", "md5"], sf=[d, inside[0]]))   # a folder and a file inside it: the file is named twice
    if files:
        cr.append(c("", ["md5"], sf=[files[0], files[0]]))
    if meta.get("creator") and g == 0:
        for extra in CREATOR[1:]:
            cr.append(c("", ["xxh64"], extra=extra))
            cr.append(c("", ["xxh64"], extra=extra, sf=files[:1]) if files else c("", ["md5"], extra=extra))
    for op in cr:
        out.append((op, m2, cont))
    if g >= 1:
        out.append((["flatten", {"root": "", "dest": "{dest}", "times": 2}], m2, False))
        out.append((["flatten", {"root": "", "dest": "{dest}", "times": 1, "extra": CREATOR[-1]}], m2, False))
        out.append((["flatten", {"root": "", "dest": "{dest}", "times": 1, "n": True, "extra": ["-n"]}], m2, False))
    if g >= 1 and meta["edits"] < meta["max_edits"]:
        m3 = dict(meta, edits=meta["edits"] + 1)
        for f in files[:2]:
            out.append((["rm", f], m3, True))
            out.append((["write", f, med[f] + b"-altered"], m3, True))
            out.append((["mv", f, f + ".renamed"], m3, True))
        for d in dirs[:2]:
            out.append((["mv", d, d + "-renamed"], m3, True))
        out.append((["write", "new.bin", b"new"], m3, True))
    return out


def expand(ctx, item):
    tree, meta, depth = item
    out = []
    for op, m2, cont in enabled(tree, meta):
        if ops.is_edit(op):
            out.append((op, ops.edit(tree, op), m2, [], "edit:" + op[0]))
            continue
        now = sub.NOW0 + 10 * depth
        res, post, v = run_case(ctx, tree, op, now, meta.get("tz"))
        n_files = len([p for p in post if kind_of(p) and post[p] != tree.get(p, 0)])
        out.append((op, post if cont else None, m2, v, (op[0], res.exit if res else None, "invalid" if v else "valid")))
    return out


def main(tier, seed):
    eng = engine.Engine(PROP, tier, seed, "model_checking")
    engine.selftest(eng)
    if tier == "quick":
        plans = [dict(max_cmds=2, max_edits=1, creator=True)]
    else:
        plans = [dict(max_cmds=3, max_edits=1, creator=True)]
    # the dates are xsd:dateTime values in every zone: west of Greenwich with a half-hour offset, and UTC+14
    plans += [dict(max_cmds=2, max_edits=0, creator=False, tz=z) for z in ("America/St_Johns", "Pacific/Kiritimati")]
    # histories another tool may have written (optional items missing, other legal date forms): what THIS tool writes next to
    # them - and what it re-writes of them (the chain) - is valid
    plans.append(dict(max_cmds=2, max_edits=0, creator=False, foreign=True))
    tot = {"states": 0, "transitions": 0}
    runs = []
    for pl in plans:
        meta = dict(cmds=0, edits=0, **{k: v for k, v in pl.items() if k != "foreign"})
        inits = [(t, meta, "tree:" + n) for n, t in TREES.items()]
        if pl.get("foreign"):
            from mc import foreign
            sealed = engine.scenarios(eng, lambda: {"s": ops.build(eng.local_ctx(), TREES["flat"], [ops.create("", ["md5"]), ops.create("", ["md5", "xxh64"])],
                                                                   expect=[0, 0])})["s"]
            inits = []
            for var in foreign.VARIANTS if sealed is not None else ():
                ft = foreign.rewrite(sealed, var)
                if ft != sealed and foreign.valid(ft):
                    inits.append((ft, meta, "foreign:" + var))
        r = engine.bfs(eng, expand, inits, max_depth=pl["max_cmds"] + pl["max_edits"], label=ops.label, state_cap=250000)
        runs.append(dict(pl, **r))
        tot["states"] += r["states"]
        tot["transitions"] += r["transitions"]
    cov = {"states": tot["states"], "transitions": tot["transitions"], "traces_validated_against_impl": tot["transitions"],
           "exhaustive": not eng.caps, "runs": runs,
           "rule": "BFS from {empty folder, single empty file, flat, nested} over the option matrix of create (-h sets of size "
                   "1/2/6/repeated, -n, -dr, -i, repeated -i, -ii, every creator option alone and all together, -sf of files and "
                   "folders incl. files inside nested histories so that parents receive only references, create at every "
                   "sub-directory) interleaved with delete/alter/rename/add edits (exit 0/10/11) and flatten (first, repeated, "
                   "with creator options, -n); every *.mhl written is validated against xsd/ASCMHL.xsd and every chain / "
                   "collection file against xsd/ASCMHLDirectory__combined.xsd with lxml; a reduced matrix again in the zones "
                   "America/St_Johns (UTC-3:30/-2:30) and Pacific/Kiritimati (UTC+14), and starting from a flat history as another tool may have "
                   "written it (no size / ignore / sequencenr / lastmodificationdate / hashdate, dates with Z or a fraction)"}
    eng.assumptions.append("the XSD files shipped in /repo/xsd are the specification; lxml/libxml2 XMLSchema is the validator")
    return eng.finish(cov, eval_case)


def replay(path):
    return engine.replay_file(path, eval_case, PROP)
