"""C20 - the background update check can never change or stall a command (engine E4a: schedules x server behaviours)"""
import json
import os
import time

from mc import engine, ref, ops, sub, sched
from mc.engine import Viol

PROP = "C20"
DIR = None
NOTICE = "Please update to the latest ascmhl version using `pip3 install -U ascmhl`."
T = {"a.txt": b"content of a", "d": DIR, "d/b.txt": b"content of b"}


class Resp:
    def __init__(self, body, status=200):
        self.body, self.status_code = body, status

    def raise_for_status(self):
        if self.status_code >= 400:
            import requests
            raise requests.exceptions.HTTPError(f"{self.status_code} Server Error")

    def json(self):
        try:
            return json.loads(self.body)
        except ValueError as e:
            import requests
            raise requests.exceptions.JSONDecodeError(str(e), self.body, 0)


def _raise(exc):
    def f():
        raise exc
    return f


def answers():
    import requests
    A = {
        "newer": lambda: Resp('{"tag_name": "v99.9.9"}'),
        "newer-no-v": lambda: Resp('{"tag_name": "99.0"}'),
        "equal": None,   # filled below with the installed version
        "older": lambda: Resp('{"tag_name": "v0.0.1"}'),
        "pre-release": lambda: Resp('{"tag_name": "v99.0.0rc1"}'),
        "dev-release": lambda: Resp('{"tag_name": "v99.0.0.dev3"}'),
        "garbage-version": lambda: Resp('{"tag_name": "not a version"}'),
        "missing-tag": lambda: Resp('{"name": "x"}'),
        "non-string-tag": lambda: Resp('{"tag_name": 42}'),
        "json-list": lambda: Resp('[1, 2]'),
        "non-json": lambda: Resp('<html>rate limited</html>'),
        "http-403": lambda: Resp('{"message": "rate limit"}', 403),
        "http-500": lambda: Resp('oops', 500),
        "connection-error": _raise(requests.exceptions.ConnectionError("refused")),
        "timeout-error": _raise(requests.exceptions.Timeout("timed out")),
        "non-requests-exception": _raise(OSError("socket gone")),
    }
    from ascmhl.__version__ import ascmhl_tool_version
    A["equal"] = lambda: Resp(json.dumps({"tag_name": "v" + ascmhl_tool_version}))
    return A


def commands(root_ok, root_bad):
    return {"ascmhl info (exit 0)": ("ascmhl", "info", ["info", root_ok]),
            "ascmhl create on an altered tree (exit 11)": ("ascmhl", "create", ["create", root_bad, "-h", "md5"]),
            "ascmhl-debug hash (exit 0)": ("ascmhl_debug", "hash", ["hash", os.path.join(root_ok, "a.txt"), "-h", "md5"]),
            "ascmhl-debug verify on an altered tree (exit 11)": ("ascmhl_debug", "verify", ["verify", root_bad]),
            "ascmhl diff (exit 0)": ("ascmhl", "diff", ["diff", root_ok]),
            # verbose runs: the library's logger writes to stdout and is switched on by the command itself
            "ascmhl info -v (exit 0)": ("ascmhl", "info", ["info", "-v", root_ok]),
            "ascmhl-debug verify -v (exit 0)": ("ascmhl_debug", "verify", ["verify", "-v", root_ok])}


def prepare(ctx):
    sealed = ops.build(ctx, T, [ops.create("", ["md5"])], expect=[0])
    ok = os.path.join(ctx.base, "ok", "root")
    bad = os.path.join(ctx.base, "bad", "root")
    sub.materialise(ok, sealed)
    sub.materialise(bad, ops.edit(sealed, ["write", "a.txt", b"ALTERED"]))
    return ok, bad, sealed


def eval_case(ctx, case):
    """case: {answer, net_ready, cmd, bound, cap, only: [choices] | None}"""
    try:
        ok, bad, sealed = prepare(ctx)
    except ops.ScenarioFailure:
        return [], 0, {"scenario could not be prepared": 1}, False, 0
    group, cname, args = commands(ok, bad)[case["cmd"]]
    ans = answers()[case["answer"]]
    sub.NOW[0] = sub.NOW0
    # baseline: the same command without the group's updater
    sub.materialise(bad, ops.edit(sealed, ["write", "a.txt", b"ALTERED"]))
    import ascmhl.logger as _lg
    _lg.verbose_logging = False
    b = sub.run_inproc(cname, args[1:], now=sub.NOW0)
    base_exit, base_out = b.exit, b.out
    sig0 = {"answer_class": case["answer"] if case["net_ready"] else "never-answers"}

    def judge(S, r, texc, choices):
        v = []
        one = dict(case, only=choices)
        desc = f"[{case['cmd']}; server: {case['answer'] if case['net_ready'] else 'never answers'}; schedule {choices}] "

        def V(kind, detail, **extra):
            v.append(Viol(PROP, kind, dict(sig0, **extra), desc + detail, one))
        if S.deadlock:
            V("deadlock", "no thread or environment event enabled: the command waits for the update check forever "
              f"(join timeout {S.join_timeout})")
            return v, ("deadlock",)
        if r is None:
            V("killed", "execution did not complete")
            return v, ("incomplete",)
        if r.exit_code != base_exit:
            V("exit-code-changed", f"exit code {r.exit_code} (exception {r.exception!r}), the command itself exits {base_exit}",
              exc=type(r.exception).__name__ if r.exception and not isinstance(r.exception, SystemExit) else None)
        out = r.stdout
        notice = 0
        if out != base_out:
            extra = out[len(base_out):].strip() if out.startswith(base_out) else None
            # the notice: today's wording at any time, or - when a newer final release was announced - any single line
            if extra == NOTICE or (extra and "\n" not in extra and case["net_ready"] and case["answer"] in ("newer", "newer-no-v")):
                notice = 1
            else:
                V("stdout-changed", f"stdout {out!r}, the command itself prints {base_out!r}",
                  notice_first=out.strip().startswith(NOTICE))
        if S.vtime > 1.0 + 1e-9:
            V("stalled", f"the command was blocked {S.vtime} s (virtual) by the update check", vtime=S.vtime)
        return v, (r.exit_code, notice, S.vtime, texc)
    # the command under test may write (create): re-materialise before every execution
    real_run_one = sched.run_one

    def run_one(choices, answer, net_ready, group_, args_):
        if cname == "create":
            sub.materialise(bad, ops.edit(sealed, ["write", "a.txt", b"ALTERED"]))
        sub.NOW[0] = sub.NOW0
        _lg.verbose_logging = False   # module-global of the library: every execution starts like a fresh process
        return real_run_one(choices, answer, net_ready, group_, args_)
    sched.run_one = run_one
    try:
        if case.get("only") is not None:
            S, r, texc = run_one(list(case["only"]), ans, case["net_ready"], group, args)
            vs, key = judge(S, r, texc, list(S.taken))
            return vs, 1, {str(key): 1}, False, 1
        try:
            n, viols, outcomes, capped, nstates = sched.explore(ans, case["net_ready"], group, args, case["bound"], judge,
                                                                cap=case.get("cap"), cache=bool(case.get("cache")))
        except sched.ReplayDivergence as e:
            raise sched.ReplayDivergence(f"{e} [case {case['cmd']} / {case['answer']} / net_ready={case['net_ready']}]")
    finally:
        sched.run_one = real_run_one
        sub.rm(os.path.join(ctx.base, "ok"))
        sub.rm(os.path.join(ctx.base, "bad"))
    return viols, n, {str(k): c for k, c in outcomes.items()}, capped, nstates


def work(ctx, case):
    return eval_case(ctx, case)


def _eval_only(ctx, case):
    if "hostile" in case:
        return hostile_viols(hostile(ctx, case["hostile"]))
    if "sequence" in case:
        return process_viols(process_level(ctx, case["sequence"]))
    return eval_case(ctx, case)[0]


def free_running(ctx, mode):
    """separate pass with real threads and real time (the cooperative scheduler's hand-offs would hide an
    unsynchronised wait): wall-clock overhead of a hanging / slow server"""
    import importlib
    import threading
    import requests
    from click.testing import CliRunner
    ok, bad, sealed = prepare(ctx)
    release = threading.Event()

    def slow_get(url, **kw):
        if mode == "hang-clock-back":
            # the wall clock is set back by an hour while the request is pending (end of daylight saving time seen through
            # naive local times, a clock correction): only elapsed real time may govern how long the command waits
            sub.NOW[0] -= 3600
            release.wait(8)
        elif mode == "hang":
            release.wait(30)
        else:
            time.sleep(0.5)
        return Resp('{"tag_name": "v99.9.9"}')
    real = requests.get
    requests.get = slow_get
    out = []
    try:
        import ascmhl.cli.update as U
        importlib.reload(U)
        sub.rebind_clock()   # (the reloaded module reads the injected clock as well)
        sub.NOW[0] = sub.NOW0
        for group, attr, args in (("ascmhl", "mhltool_cli", ["info", ok]), ("ascmhl_debug", "mhldebugtool_cli", ["hash", ok + "/a.txt", "-h", "md5"])):
            t0 = time.time()
            b = CliRunner(mix_stderr=False).invoke(getattr(importlib.import_module("ascmhl.commands"), args[0]), args[1:])
            tb = time.time() - t0
            best = None
            for attempt in range(2):   # the machine may be busy: the smaller of two measurements counts
                import sys as _sys
                mn = "ascmhl.cli." + group
                mod = importlib.reload(_sys.modules[mn]) if mn in _sys.modules else importlib.import_module(mn)
                t0 = time.time()
                r = CliRunner(mix_stderr=False).invoke(getattr(mod, attr), args)
                dt = time.time() - t0
                best = dt if best is None else min(best, dt)
                if best - tb < 1.5:
                    break
            out.append((group, mode, round(best - tb, 3), r.exit_code, b.exit_code, r.stdout.startswith(b.stdout)))
    finally:
        release.set()
        requests.get = real
    return out


HOSTILE = {
    "long digit run + local part": "v1.0." + "20260927063015" * 2 + "+build",
    "long digit run + junk": "v" + "7" * 30 + "!x",
    "many dotted segments + junk": "v" + "1." * 40 + "x",
    "many pre-release markers": "v1" + "rc1" * 30 + "#",
    "huge number": "v" + "9" * 4000,
    "very many segments": "1" + ".1" * 5000,
    "long garbage": "a-" * 50000,
    "blanks": " " * 20000 + "v1" + " " * 20000,
}
HOSTILE_SRC = r"""
import sys, json, time, importlib
spec = json.loads(sys.stdin.read())
import requests
class R:
    status_code = 200
    def raise_for_status(self): pass
    def json(self): return {"tag_name": spec["tag"]}
requests.get = lambda *a, **k: R()
from click.testing import CliRunner
import ascmhl.commands as C
t0 = time.time(); b = CliRunner(mix_stderr=False).invoke(C.info, [spec["root"]]); tb = time.time() - t0
t0 = time.time()
mod = importlib.import_module("ascmhl.cli.ascmhl")
r = CliRunner(mix_stderr=False).invoke(mod.mhltool_cli, ["info", spec["root"]]); dt = time.time() - t0
print("@@" + json.dumps([round(dt - tb, 3), r.exit_code, b.exit_code, r.stdout.startswith(b.stdout)]))
"""


def hostile(ctx, name):
    """free-running, fresh interpreter: a quick, well-formed answer whose version string is hostile to a parser (a thread
    that computes without releasing the interpreter lock stalls the command although it is 'in the background')"""
    import subprocess
    import sys
    ok, bad, sealed = prepare(ctx)
    best = None
    for attempt in range(2):
        try:
            p = subprocess.run([sys.executable, "-c", HOSTILE_SRC], input=json.dumps({"tag": HOSTILE[name], "root": ok}),
                               capture_output=True, text=True, timeout=40, env=dict(os.environ, PYTHONHASHSEED="0"))
        except subprocess.TimeoutExpired:
            return (name, 40.0, None, None, False)
        line = [l for l in p.stdout.splitlines() if l.startswith("@@")]
        if not line:
            raise engine.HarnessError(f"hostile-tag pass produced no result: {p.stderr[-500:]}")
        dt, ex, bex, same = json.loads(line[0][2:])
        if best is None or dt < best[1]:
            best = (name, dt, ex, bex, same)
        if dt < 1.5:
            break
    return best


# whole processes (the interpreter's exit joins every non-daemon thread, which no in-process run can see): the server's answers
# are a SEQUENCE, one per request the tool may make
SEQUENCES = [["hang"], ["503", "hang"], ["500", "500", "hang"], ["refuse", "hang"], ["404", "hang"], ["slow"], ["ok", "hang"],
             ["garbage", "hang"], ["timeout", "hang"],
             # a console that cannot show every character: the notice must not turn the command's result into an encoding error
             ["@latin-1", "ok"], ["@cp1252", "ok"], ["@ascii", "ok"]]
PROC_SRC = r"""
import sys, json, time, threading
spec = json.loads(sys.argv[1])
import requests
seq = list(spec["seq"]); lock = threading.Lock()
class R:
    def __init__(self, code, body):
        self.status_code, self.body, self.text = code, body, body
    def raise_for_status(self):
        if self.status_code >= 400:
            raise requests.exceptions.HTTPError(str(self.status_code) + " Server Error", response=self)
    def json(self):
        try:
            return json.loads(self.body)
        except ValueError as e:
            raise requests.exceptions.JSONDecodeError(str(e), self.body, 0)
def get(*a, **k):
    with lock:
        kind = seq.pop(0) if seq else "hang"
    if kind == "hang":
        time.sleep(3600)
    if kind == "slow":
        time.sleep(0.5); kind = "ok"
    if kind == "refuse":
        raise requests.exceptions.ConnectionError("refused")
    if kind == "timeout":
        raise requests.exceptions.ConnectTimeout("timed out")
    if kind == "garbage":
        return R(200, "<html>")
    if kind.isdigit():
        return R(int(kind), '{"message": "x"}')
    return R(200, '{"tag_name": "v99.9.9"}')
requests.get = get
from ascmhl.cli.ascmhl import mhltool_cli
sys.argv = ["ascmhl", "info", spec["root"]]
mhltool_cli()
"""


def process_level(ctx, seq):
    """wall-clock time of a whole `ascmhl info` process whose update server answers with the given sequence, minus that of
    the same process with a server that refuses at once"""
    import subprocess
    import sys
    ok, bad, sealed = prepare(ctx)

    enc = seq[0][1:] if seq and seq[0].startswith("@") else None   # "@latin-1": the encoding of the process's standard streams
    seq = [x for x in seq if not x.startswith("@")]

    def once(sq):
        t0 = time.time()
        try:
            env = dict(os.environ, PYTHONHASHSEED="0")
            if enc:
                env["PYTHONIOENCODING"] = enc
            p = subprocess.run([sys.executable, "-c", PROC_SRC, json.dumps({"seq": sq, "root": ok})], capture_output=True, text=True,
                               errors="replace", timeout=25, env=env)
            return time.time() - t0, p.returncode, p.stdout
        except subprocess.TimeoutExpired:
            return 25.0, None, ""
    tb, eb, ob = once(["refuse"])
    best = None
    for attempt in range(2):
        t, e, o = once(list(seq))
        if best is None or t < best[0]:
            best = (t, e, o)
        if t - tb < 1.8:
            break
    t, e, o = best
    return ("+".join((["@" + enc] if enc else []) + seq), round(t - tb, 3), e, eb, o.startswith(ob) if o is not None else False)


def process_viols(res):
    name, overhead, ex, bex, same = res
    if overhead < 2.5 and ex == bex and same:
        return []
    return [Viol(PROP, "free-running-stall", {"mode": "whole-process"},
                 f"a real `ascmhl info` process, server answers {name}: the process ended {overhead} s later than with a server that "
                 f"refuses at once (killed after 25 s: {ex is None}), exit {ex} (command itself {bex}), stdout prefix ok {same}",
                 {"sequence": name.split("+")})]


def hostile_viols(res):
    name, overhead, ex, bex, same = res
    if overhead < 2.5 and ex == bex and same:
        return []
    return [Viol(PROP, "free-running-stall", {"mode": "hostile-version-string"},
                 f"real threads, quick answer with tag_name = {name} ({HOSTILE[name][:60]!r}...): overhead {overhead} s, "
                 f"exit {ex} (command itself {bex}), stdout prefix ok {same}", {"hostile": name})]


def work_free(ctx, mode):
    if isinstance(mode, list):
        return [("process", process_level(ctx, mode))]
    if mode in HOSTILE:
        return [("hostile", hostile(ctx, mode))]
    return free_running(ctx, mode)


def main(tier, seed):
    eng = engine.Engine(PROP, tier, seed, "model_checking")
    engine.selftest(eng)
    A = list(answers())
    cmds = ["ascmhl info (exit 0)", "ascmhl create on an altered tree (exit 11)", "ascmhl-debug hash (exit 0)",
            "ascmhl-debug verify on an altered tree (exit 11)", "ascmhl info -v (exit 0)", "ascmhl-debug verify -v (exit 0)"]
    cases = []
    if tier == "quick":
        for a in A:
            for c in cmds:
                cases.append({"answer": a, "net_ready": True, "cmd": c, "bound": 2})
        for c in cmds:
            cases.append({"answer": "newer", "net_ready": False, "cmd": c, "bound": 2})
    else:
        for a in A:
            for c in cmds + ["ascmhl diff (exit 0)"]:
                cases.append({"answer": a, "net_ready": True, "cmd": c, "bound": None, "cache": True, "cap": 60000})
                cases.append({"answer": a, "net_ready": True, "cmd": c, "bound": 3})
        for c in cmds + ["ascmhl diff (exit 0)"]:
            cases.append({"answer": "newer", "net_ready": False, "cmd": c, "bound": None, "cache": True, "cap": 60000})
            cases.append({"answer": "newer", "net_ready": False, "cmd": c, "bound": 3})
    # determinism of the scheduler: the same choice sequence twice gives the same observations
    ctx = eng.local_ctx()
    probe = {"answer": "newer", "net_ready": True, "cmd": cmds[0], "bound": 0, "only": [1, 0, 0, 1]}
    r1 = eval_case(ctx, dict(probe))
    r2 = eval_case(ctx, dict(probe))
    if (r1[2], [x.key() for x in r1[0]]) != (r2[2], [x.key() for x in r2[0]]):  # same schedule, same observation
        raise engine.HarnessError(f"schedule replay is not deterministic: {r1[2]} vs {r2[2]}")
    res = eng.pmap(work, cases, chunksize=1)
    execs = 0
    runs = []
    nstates = 0
    for case, (vs, n, outcomes, capped, ns) in zip(cases, res):
        eng.add_viols(vs)
        execs += n
        nstates += ns
        for k, c in outcomes.items():
            eng.outcome(k, c)
        if capped:
            eng.caps.append(f"{case['cmd']} / {case['answer']}: execution cap {case.get('cap')} hit")
        runs.append({"cmd": case["cmd"], "server": case["answer"] if case["net_ready"] else "never answers", "executions": n,
                     "distinct_outcomes": len(outcomes), "abstract_states": ns, "mode": "stateful, all interleavings" if case.get("cache")
                     else f"stateless, <= {case['bound']} preemptions"})
    for rr in runs[:: max(1, len(runs) // 5)]:
        eng.sample(rr)
    free = eng.pmap(work_free, ["hang", "slow", "hang-clock-back"] + list(HOSTILE) + SEQUENCES, chunksize=1)
    for lst in [x for x in free if x and x[0][0] == "process"]:
        pv = process_viols(lst[0][1])
        eng.outcome(("free-running", "whole process", "viol" if pv else "ok"))
        eng.add_viols(pv)
    procs = [list(x[0][1]) for x in free if x and x[0][0] == "process"]
    free = [x for x in free if not (x and x[0][0] == "process")]
    for lst in [x for x in free if x and x[0][0] == "hostile"]:
        hv = hostile_viols(lst[0][1])
        eng.outcome(("free-running", "hostile version string", "viol" if hv else "ok"))
        eng.add_viols(hv)
    free = [x for x in free if not (x and x[0][0] == "hostile")] + [[list(x[0][1])] for x in free if x and x[0][0] == "hostile"]
    for lst in free[:3]:
        for group, mode, overhead, ex, bex, same in lst:
            eng.outcome(("free-running", mode, "ok" if overhead < 2.5 and ex == bex and same else "viol"))
            if overhead >= 2.5 or ex != bex or not same:
                eng.add_viols([Viol(PROP, "free-running-stall", {"mode": mode},
                                    f"real threads, {mode} server, {group}: overhead {overhead} s, exit {ex} (command itself {bex}), stdout prefix ok {same}")])
    free = free + [[p] for p in procs]
    cov = {"states": nstates, "transitions": execs, "traces_validated_against_impl": execs, "exhaustive": not eng.caps,
           "preemption_bound": 2 if tier == "quick" else "unbounded", "server_behaviours": len(A) + 1, "commands": len(cmds) + (tier != "quick"),
           "free_running_pass": free, "runs": runs,
           "rule": "states = distinct abstract scheduler states met (program counters, blocked-on, virtual clock, shared attributes), "
                   "transitions = complete executions (schedules) run on the real threads; every interleaving of the real Updater thread with the command and the "
                   "result callback at source-line granularity (plus call/return of the command, the network wait and the join as "
                   f"blocking points) up to {'2 preemptions (stateless)' if tier == 'quick' else 'any number of preemptions (stateful: each (abstract state, choice) pair executed once) plus a stateless pass with <= 3 preemptions'}, crossed with "
                   "16 server answers + a server that never answers (arrival of the answer is a scheduler choice, the join timeout a "
                   "virtual-clock event) and 4-5 commands (succeeding and failing, both groups); oracle: exit code and stdout of the "
                   "plain command (+ at most one trailing notice line), <= 1 s virtual blocking, no deadlock; separate free-running "
                   "pass with real threads and real time for a hanging and a slow server and for quick answers whose version string is "
                   "hostile to a parser (long digit runs, thousands of segments, huge numbers, long garbage), and for whole `ascmhl` processes "
                   "(interpreter exit included) against 9 sequences of server answers (hang, 5xx then hang, refused then hang, ...)"}
    eng.assumptions.append("preemption inside a single source line or a C call is not interleaved (the shared state is two attribute stores)")
    return eng.finish(cov, _eval_only)


def replay(path):
    return engine.replay_file(path, _eval_only, PROP)
