"""C04 - digests are always judged against the first recorded value (engine E1, model checking)"""
import itertools
import os

from mc import engine, ref, sub, ops
from mc.engine import Viol

PROP = "C04"
DIR = None
A0, A1 = b"original content of a", b"ALTERED content of a!"
MODES = ("folder", "sf", "nested")
TWINS = {"c": DIR, "c/z.txt": b"zc", "d": DIR, "d/a.txt": None, "e": DIR, "e/z.txt": b"ze", "b.txt": b"bystander",
         "d.txt": b"its name starts with the name of the nested root d", "d2": DIR, "d2/a.txt": b"so does this folder's"}


def subsets(fmts):
    out = []
    for n in range(1, len(fmts) + 1):
        out += [list(c) for c in itertools.combinations(fmts, n)]
    return out


LATE, L0, L1 = "l.txt", b"first content of the late file", b"ALTERED content of the late file"
NFD_NAME = "cafe\u0301 \u212b.txt"   # decomposed accent + a singleton that NFC would replace


def tracked(mode):
    return "d/a.txt" if mode in ("nested", "twins") else (NFD_NAME if mode == "nfd-name" else "a.txt")


def init_tree(mode):
    if mode == "nfd-name":
        return {NFD_NAME: A0, "b.txt": b"bystander"}
    if mode == "nested":
        return {"d": DIR, "d/a.txt": A0, "b.txt": b"bystander"}
    return {"a.txt": A0, "b.txt": b"bystander"}


def create_args(root, mode, fmts, first=False):
    # nested mode: generation 1 of the child history is created from the child folder itself,
    # every later generation by sealing the parent folder
    a = [os.path.join(root, "d") if (mode == "nested" and first) else root]
    for f in fmts:
        a += ["-h", f]
    if mode == "sf":
        a += ["-sf", os.path.join(root, "a.txt")]
    return a


# ------------------------------------------------------------------ oracle

def check_record(V, hs, per, first_gen, content, number, requested=None):
    """the C04 relation for one file record: hs = its hash entries in the new generation, per = earliest recorded digest per
    format before the run, first_gen = first generation that records the path (None: new in this run)"""
    acts = {h["format"]: h["action"] for h in hs}
    altered = any(ref.digest(f, content) != d for f, (d, _) in per.items())
    for h in hs:
        want = ref.digest(h["format"], content)
        if h["digest"] != want:
            V("digest-wrong", f"{h['format']} recorded {h['digest']} but the file bytes hash to {want}")
    if first_gen is None:
        if not any(a == "original" for a in acts.values()) or any(a == "failed" for a in acts.values()):
            V("first-gen-actions", f"first generation records actions {acts}")
    else:
        if any(a == "original" for a in acts.values()):
            V("original-in-later-gen", f"'original' again in generation {number}: {acts} (first recorded in {first_gen})")
        any_failed = any(a == "failed" for a in acts.values())
        old_verified = any(a == "verified" for f, a in acts.items() if f in per)
        for h in hs:
            f = h["format"]
            if f in per:
                want = "verified" if h["digest"] == per[f][0] else "failed"
                if h["action"] != want:
                    V("action-mismatch", f"{f}: action {h['action']} but digest {'==' if want == 'verified' else '!='} "
                      f"earliest recorded ({per[f][0]} from generation {per[f][1]})")
            else:
                if any_failed:
                    V("new-format-on-failed", f"new format {f} recorded although a check failed: {acts}")
                elif h["action"] != "verified":
                    V("new-format-not-verified", f"new format {f} has action {h['action']}")
                elif not old_verified:
                    V("new-format-unvouched", f"new format {f} recorded without a verified entry of a recorded format: {acts}")
        for f in requested or []:
            if f in per and f not in acts:   # "a failed check is itself recorded"; a passed one as well
                V("requested-recorded-format-missing", f"{f} was requested and is recorded for the file (generation {per[f][1]}) but the new "
                  f"generation has no {f} entry: {acts}", altered=altered)
        if altered and not any_failed:
            V("failed-not-recorded", f"content differs from the first digests but no 'failed' entry: {acts}")
        if not altered and any_failed:
            V("failed-on-unaltered", f"'failed' entry although the bytes equal the first recorded content: {acts}")


def judge(pre, post, mode, fmts, res, edits_state):
    """relation R(pre, create fmts, post, result) from the property statement.  pre/post: trees."""
    v = []
    tp = tracked(mode)
    hroot = "d" if mode in ("nested", "twins") else ""
    rel = ref.rel_to(hroot, tp)
    content = pre[tp]
    pre_g = [(g["number"], ref.read_manifest(g["bytes"])) for g in ref.generations(pre, hroot)]
    new = [g for g in ref.generations(post, hroot) if g["path"] not in pre]
    per, first_gen = ref.earliest(pre_g, rel)
    altered = any(ref.digest(f, content) != d for f, (d, _) in per.items())
    if mode == "late" and pre.get(LATE) is not None:   # the exit code answers for every file of the run
        altered = altered or any(ref.digest(f, pre[LATE]) != d for f, (d, _) in ref.earliest(pre_g, LATE)[0].items())
    sig = {"mode": mode}

    def V(kind, detail, **extra):
        s = dict(sig); s.update(extra)
        v.append(Viol(PROP, kind, s, detail))

    if mode == "was-folder" and res.exc is None and res.exit == 10:
        pass   # the folder recorded under this name (and what was in it) is gone: 'missing' is the correct answer of every run
    elif res.exc is not None or res.exit not in (0, 11):
        where = res.tb[-1][1] if res.tb else None
        V("abort", f"create {fmts} on {'altered' if altered else 'unaltered'} tree: exit {res.exit} exc {res.exc}",
          exc=(res.exc or "").split(":")[0], where=where, altered=altered)
        return v
    if mode == "was-folder":
        if res.exit == 0:
            V("exit-0-with-missing-folder", f"create {fmts}: exit 0 although the recorded folder is gone")
    elif not altered and res.exit != 0:
        V("exit-nonzero-unaltered", f"create {fmts}: exit {res.exit} on an unaltered tree\n{res.err[-300:]}")
    if altered and res.exit != 11 and mode != "was-folder":
        V("exit-not-11-altered", f"create {fmts}: exit {res.exit} although the tracked file differs from its first digest")
    if len(new) != 1:
        V("generation-count", f"{len(new)} new manifests in history '{hroot}'")
        return v
    m = ref.read_manifest(new[0]["bytes"])
    recs = [r for r in m["records"] if r["kind"] == "file" and r["path"] == rel]
    if len(recs) != 1:
        V("no-record", f"{len(recs)} records for {rel} in {new[0]['name']}")
        return v
    check_record(V, recs[0]["hashes"], per, first_gen, content, new[0]["number"], requested=fmts)
    # the same relation for every other file recorded by this run, in every history it wrote to
    for hr in ref.history_roots(post):
        pg = [(g["number"], ref.read_manifest(g["bytes"])) for g in ref.generations(pre, hr)]
        for g in [g for g in ref.generations(post, hr) if g["path"] not in pre]:
            for rec in ref.read_manifest(g["bytes"])["records"]:
                full = (hr + "/" + rec["path"]) if hr else rec["path"]
                if rec["kind"] == "file" and (rec["path"].startswith("../") or "/../" in rec["path"] or rec["path"].startswith("/")):
                    V("record-outside-its-history", f"{g['name']} of history '{hr or '.'}' records {rec['path']!r}: a file that lies outside "
                      f"this history is judged against the wrong history's digests", other=True)
                    continue
                if rec["kind"] != "file" or full == tp or pre.get(full) is None:
                    continue
                per2, first2 = ref.earliest(pg, rec["path"])

                def V2(kind, detail, **extra):
                    V(kind, f"[{full} in history '{hr or '.'}'] " + detail, other=True, **extra)
                check_record(V2, rec["hashes"], per2, first2, pre[full], g["number"])
    return v


def outcome_of(post, mode, res):
    hroot = "d" if mode in ("nested", "twins") else ""
    gens = ref.generations(post, hroot)
    if not gens:
        return (res.exit, None)
    m = ref.read_manifest(gens[-1]["bytes"])
    rel = ref.rel_to(hroot, tracked(mode))
    acts = sorted({h["action"] for r in m["records"] if r["path"] == rel for h in r["hashes"]})
    return (res.exit, "+".join(a or "-" for a in acts))


# ------------------------------------------------------------------ transitions

def do_create(ctx, pre, mode, fmts, now):
    sub.materialise(ctx.root, pre)
    first = mode == "nested" and "d/ascmhl" not in pre
    res = ctx.run("create", create_args(ctx.root, mode, fmts, first), now=now)
    post = sub.readback(ctx.root)
    return res, post


def eval_case(ctx, case):
    pre = case["pre"]
    res, post = do_create(ctx, pre, case["mode"], case["fmts"], case["now"])
    vs = judge(pre, post, case["mode"], case["fmts"], res, None)
    for x in vs:
        x.case = case
    return vs


def expand(ctx, item):
    tree, meta, depth = item
    mode, fsets, max_gen, max_edits = meta["mode"], meta["fsets"], meta["max_gen"], meta["max_edits"]
    out = []
    tp = tracked(mode)
    if meta["gens"] < max_gen:
        for fmts in fsets:
            now = sub.NOW0 + 10 * (meta["gens"] + 1)
            case = {"pre": tree, "mode": mode, "fmts": fmts, "now": now}
            res, post = do_create(ctx, tree, mode, fmts, now)
            vs = judge(tree, post, mode, fmts, res, None)
            for x in vs:
                x.case = dict(case)
            m2 = dict(meta, gens=meta["gens"] + 1)
            cont = post if m2["gens"] < max_gen else None
            out.append((["create"] + fmts, cont, m2, vs, outcome_of(post, mode, res)))
    if mode == "late":
        # a second file that the history first records in generation 2 and that is altered / restored later on
        # (judged by the every-other-file part of the relation); the tracked file itself stays as it is
        if meta["edits"] < max_edits and 1 <= meta["gens"] < max_gen and not meta.get("just_edited") and (LATE in tree or meta["gens"] == 1):
            t2 = dict(tree)
            t2[LATE] = L1 if tree.get(LATE) == L0 else L0
            out.append((["set", LATE, "L1" if t2[LATE] == L1 else "L0"], t2, dict(meta, edits=meta["edits"] + 1, just_edited=True), [], "edit"))
    elif meta["edits"] < max_edits and meta["gens"] >= 1 and meta["gens"] < max_gen and not meta.get("just_edited"):
        t2 = dict(tree)
        t2[tp] = A1 if tree[tp] == A0 else A0
        out.append((["set", "A1" if t2[tp] == A1 else "A0"], t2, dict(meta, edits=meta["edits"] + 1, just_edited=True),
                    [], "edit"))
    if mode == "twins" and 1 <= meta["gens"] < max_gen:
        # a file with the same history-relative path appears in a sibling history (visited before / after the tracked one)
        for tw in ("c/a.txt", "e/a.txt"):
            if tw not in tree and meta.get("twins", 0) < 1:
                out.append((["add", tw], dict(tree, **{tw: b"twin of another history"}), dict(meta, twins=meta.get("twins", 0) + 1), [], "edit"))
    if meta.get("just_edited"):
        for tr in out:
            if tr[2] is not None and tr[0][0] == "create":
                tr[2].pop("just_edited", None)
    return out


def prepare_nested(ctx):
    """nested mode: the child history at d is created first, from d itself (generation 1 of d)"""
    return init_tree("nested")


def main(tier, seed):
    eng = engine.Engine(PROP, tier, seed, "model_checking")
    engine.selftest(eng)
    total = {"states": 0, "transitions": 0}
    runs = []
    if tier == "quick":
        plan = [(m, ["c4", "md5", "xxh64"], 3, 2) for m in MODES] + [("folder", ["c4", "md5", "xxh64"], 4, 0)] + \
               [(m, ["md5", "xxh64"], 5, 2) for m in MODES]   # long sequences over two formats: a format added later, failed, checked again
    else:
        plan = [(m, ["c4", "md5", "xxh64"], 4, 2) for m in MODES] + [(m, ["md5", "xxh64"], 6, 3) for m in MODES] + \
               [("folder", ref.FORMATS_CLI, 3, 0), ("nested", ["c4", "md5", "sha1", "xxh64"], 3, 2),
                ("sf", ["c4", "md5", "sha1", "xxh64"], 3, 2)]
    plan.append(("twins", ["md5", "xxh64"], 3 if tier == "quick" else 4, 1))
    plan.append(("nfd-name", ["md5", "xxh64"], 3, 2))   # the tracked file's name is not in Unicode NFC form
    # a long history of one format (generation numbers pass 9 -> 10): the first digest stays the reference whatever was recorded since
    plan.append(("folder", ["md5"], 12, 3))
    plan.append(("late", ["md5"], 12, 4))
    plan.append(("was-folder", ["md5", "xxh64"], 3 if tier == "quick" else 4, 2))
    for mode, fmts, max_gen, max_edits in plan:
        fsets = subsets(fmts)
        meta = {"mode": mode, "fsets": fsets, "max_gen": max_gen, "max_edits": max_edits, "gens": 0, "edits": 0}
        init = init_tree(mode)
        if mode == "twins":   # three sibling histories; the tracked file lives in the middle one
            init = engine.scenarios(eng, lambda: {"t": ops.build(eng.local_ctx(), dict(TWINS, **{"d/a.txt": A0}),
                                                                 [ops.create(x, ["md5"]) for x in ("c", "d", "e")], expect=[0, 0, 0])})["t"]
            if init is None:
                continue
            meta["gens"] = 1
            max_gen += 1
            meta["max_gen"] = max_gen
        if mode == "was-folder":   # generation 1 recorded a FOLDER under the tracked name; a file has taken its place since
            init = engine.scenarios(eng, lambda: {"t": ops.build(eng.local_ctx(), {"a.txt": DIR, "a.txt/inner.bin": b"inside", "b.txt": b"bystander"},
                                                                 [ops.create("", ["md5"]), ["retype", "a.txt"], ["write", "a.txt", A0]],
                                                                 expect=[0])})["t"]
            if init is None:
                continue
            meta["gens"] = 1
            max_gen += 1
            meta["max_gen"] = max_gen
        r = engine.bfs(eng, expand, [(init, meta, f"init:{mode}")], max_depth=max_gen + max_edits + 2,
                       label=lambda op: " ".join(op))
        runs.append({"mode": mode, "formats": fmts, "format_sets": len(fsets), "max_generations": max_gen,
                     "max_content_edits": max_edits, **r})
        total["states"] += r["states"]
        total["transitions"] += r["transitions"]
    cov = {"states": total["states"], "transitions": total["transitions"],
           "traces_validated_against_impl": total["transitions"],
           "rule": "BFS over real file-system states; transition = real `create` with one non-empty format subset, "
                   "or alter/restore of the tracked file; every create judged by the C04 relation over the on-disk "
                   "history before/after (independent XML reader + reference digests)",
           "exhaustive": True, "runs": runs}
    eng.assumptions += ["alphabet: one tracked file (root / -sf / nested child history) + one bystander; 'twins': three sibling histories, a file with "
                        "the tracked file's history-relative path appears in the sibling visited before / after it; the relation is checked "
                        "for every file record of every manifest a run writes",
                        "content alphabet {original, altered}; at most max_content_edits alter/restore steps",
                        "in-process CliRunner execution; every alarm re-run in fresh subprocesses before it is reported"]
    return eng.finish(cov, eval_case)


def replay(path):
    return engine.replay_file(path, eval_case, PROP)
