"""C07 - directory hashes follow the compositional definition (engine E1 + metamorphic edits)"""
import re

from mc import engine, ref, ops, sub
from mc.engine import Viol
from props import c02

PROP = "C07"
DIR = None
IGN = [(".DS_Store", b"finder"), ("d/.DS_Store", b"finder2"), ("junk.tmp", b"tmp"), ("d/s/junk.tmp", b"tmp2")]
FSETS = [[f] for f in ref.FORMATS_CLI] + [list(ref.FORMATS_CLI)]
TOK = re.compile(r"\b(?:[0-9a-f]{16}|[0-9a-f]{32}|[0-9a-f]{40}|c4[1-9A-HJ-NP-Za-km-z]{88})\b")


# SHA-512 of b"A1\n" starts with a zero byte; with content b"plain" the per-child structure digest of the name n261.txt does
# (both matter for the fixed-width c4 text <-> bytes conversion inside directory hashes)
ZERO_TREES = [
    {"z": DIR, "z/lead0.txt": b"A1\n", "z/other.txt": b"other", "top.txt": b"A1\n"},
    {"n261.txt": b"plain", "w": DIR, "w/n261.txt": b"plain", "w/b.txt": b"b"},
]


WIDE = {"w": DIR, **{f"w/file{i:02d}.bin": b"content %d" % i for i in range(14)}, "w/s1": DIR, "w/s1/x.txt": b"x1", "w/s2": DIR,
        "w/s2/x.txt": b"x2", "w/s3": DIR, "top.txt": b"top"}
SAMENAME = {"a": DIR, "a/x": DIR, "a/x/f.txt": b"in a", "b": DIR, "b/x": DIR, "b/x/f.txt": b"in b", "c": DIR, "c/x": DIR,
            "c/x/f.txt": b"in a", "x": DIR, "x/f.txt": b"top x", "a/x/deep": DIR, "a/x/deep/x": DIR, "a/x/deep/x/f.txt": b"deep"}
# names that are not in Unicode NFC form next to their composed twins (different names on Linux): the structure hash binds the
# exact name bytes
UNI = {"e\u0301.txt": b"decomposed", "\u00e9.txt": b"composed", "u\u0308 dir": DIR, "u\u0308 dir/f.txt": b"in nfd dir",
       "\u00fc dir": DIR, "\u00fc dir/f.txt": b"in nfc dir", "\u212b.bin": b"angstrom sign", "\uf900.bin": b"cjk compatibility"}
# block sizes: folders with exactly 128 and 129 children
BLOCK = {"k": DIR, **{f"k/f{i:03d}.bin": b"%d" % i for i in range(128)}, "k/m": DIR, **{f"k/m/g{i:03d}.bin": b"g%d" % i for i in range(127)}}
BLOCK["k/m/sub"] = DIR   # k: 128 files + m = 129 children; k/m: 127 files + sub = 128 children
# symbolic links to files (hashed through the link): the link's OWN name is the child name that the structure hash binds
LINKTREE = {"a.txt": b"content of a", "d": DIR, "d/x.bin": b"content of x", "d/zz link": b"content of a", "first link": b"content of x"}
LINKS = {"d/zz link": "../a.txt", "first link": "d/x.bin"}
# names with a percent sign (whatever is printed must name them as they are)
PCT = {"100% done": DIR, "100% done/a.txt": b"A", "rate%%25": DIR, "rate%%25/b.txt": b"B", "50%s.bin": b"S", "%(x)s": DIR, "%(x)s/c.txt": b"C"}
SPECIAL_TREES = [WIDE, SAMENAME, UNI, PCT]


def synthetic(ctx, fmt):
    """drive the directory-hash context directly with chosen child digests (leading zero bytes, extremes) and compare
    with the definition computed on raw bytes"""
    from ascmhl import hasher as H
    v = []
    n = {"md5": 16, "sha1": 20, "xxh64": 8, "xxh3": 8, "xxh128": 16, "c4": 64}[fmt]
    raws = [bytes(n), bytes(n - 1) + b"\x01", b"\x00" + b"\xff" * (n - 1), b"\x00\x00" + b"\x7f" * (n - 2), b"\xff" * n,
            bytes(range(1, n + 1)), b"\x00" * (n // 2) + b"\x01" * (n - n // 2)]
    import itertools
    for k in (1, 2, 3):
        for combo in itertools.combinations(range(len(raws)), k):
            c = H.DirectoryHashContext(fmt)
            names = []
            for j, i in enumerate(combo):
                name = f"child{j} ü.bin"
                names.append(name)
                if j % 2 == 0:
                    c.append_file_hash("/x/" + name, ref.text_of(fmt, raws[i]))
                else:
                    c.append_directory_hashes("/x/" + name, ref.text_of(fmt, raws[i]), ref.text_of(fmt, raws[(i + 1) % len(raws)]))
            want_c = sorted(raws[i] for i in combo)
            want_s = []
            for j, i in enumerate(combo):
                child = raws[i] if j % 2 == 0 else raws[(i + 1) % len(raws)]
                want_s.append(ref._raw(fmt, names[j].encode("utf8") + child))
            want = (ref.digest(fmt, b"".join(sorted(want_c, key=lambda b: ref.text_of(fmt, b)))),
                    ref.digest(fmt, b"".join(sorted(want_s, key=lambda b: ref.text_of(fmt, b)))))
            got = (c.final_content_hash_str(), c.final_structure_hash_str())
            if got != want:
                v.append(Viol(PROP, "context-mismatch", {"fmts": fmt, "leading_zero": any(raws[i][0] == 0 for i in combo)},
                              f"DirectoryHashContext({fmt}) over child digests {[raws[i].hex()[:12] for i in combo]}: {got}, definition {want}",
                              {"synthetic": fmt}))
                return v
    return v


def dirs_of(tree):
    return [""] + sorted(p for p, c in tree.items() if c is DIR)


def manifest_dirhashes(tree, hroot=""):
    """{dir relpath (tree-relative): {fmt: (content, structure)}} from the *latest* manifest of every history"""
    out = {}
    for hr in ref.history_roots(tree):
        gens = ref.generations(tree, hr)
        if not gens:
            continue
        m = ref.read_manifest(gens[-1]["bytes"])
        if m["roothash"] is not None:
            out.setdefault(("root", hr), {}).update(pair(m["roothash"]))
        for rec in m["records"]:
            if rec["kind"] == "dir":
                full = (hr + "/" + rec["path"]) if hr else rec["path"]
                out.setdefault(("rec", full), {}).update(pair(rec))
    return out


def pair(rec):
    c = {h["format"]: h["digest"] for h in rec["content"]}
    s = {h["format"]: h["digest"] for h in rec["structure"]}
    return {f: (c.get(f), s.get(f)) for f in set(c) | set(s)}


def eval_case(ctx, case):
    """case: {tree, nested: dir|None, fmts, pats: [..], order: None|'reversed', meta: bool}"""
    v = []
    tree, fmts, pats, nested = case["tree"], case["fmts"], case.get("pats") or [], case.get("nested")
    sig = {"fmts": "all" if len(fmts) > 1 else fmts[0], "nested": nested is not None, "order": case.get("order"),
           "altered": bool(case.get("alter"))}
    stats = {"cmds": 0, "dirs": 0}

    def V(kind, detail, **extra):
        v.append(Viol(PROP, kind, dict(sig, **extra), detail, case))

    allp = ref.DEFAULT_PATTERNS + pats
    excl = lambda p, isdir: ref.ignored(allp, p, isdir)
    now = sub.NOW0
    t = tree
    sub.LINKS = dict(case.get("links") or {})
    if case.get("order") == "reversed":
        sub.ORDER["perm"] = lambda d, names: list(reversed(names))
    try:
        if case.get("prior"):   # an earlier generation in another format must not influence the new directory hashes
            res, t = ops.run_cmd(ctx, t, ops.create("", case["prior"], i=pats), now - 50, order=case.get("order"))
            stats["cmds"] += 1
        if case.get("alter"):   # ... nor must a file whose recorded digest no longer verifies (exit 11) drop out of them
            t = ops.edit(t, ["write", case["alter"], t[case["alter"]] + b" (altered after the first generation)"])
            tree = ref.media(t)
        if nested is not None:
            res, t = ops.run_cmd(ctx, t, ops.create(nested, ["md5"], i=pats), now, order=case.get("order"))
            stats["cmds"] += 1
            if res.exit != 0:
                V("abort", f"nested create exit {res.exit} {res.exc}")
                return v, stats
        res, post = ops.run_cmd(ctx, t, ops.create("", fmts, i=pats, spell=case.get("spell")), now + 10, order=case.get("order"))
        stats["cmds"] += 1
        if res.exit != (11 if case.get("alter") else 0) or res.exc:
            V("abort", f"create exit {res.exit} {res.exc}\n{res.err[-300:]}")
            return v, stats
        got = manifest_dirhashes(post)
        med = ref.media(tree)
        hroots = ref.history_roots(post)
        for d in dirs_of(med):
            if d and excl(d, True):
                continue
            for f in fmts:
                want = ref.dir_hashes(med, d, f, excl)
                stats["dirs"] += 1
                keys = []
                if d == "":
                    keys.append(("root", ""))
                else:
                    keys.append(("rec", d))
                    if d in hroots:
                        keys.append(("root", d))
                for k in keys:
                    have = got.get(k, {}).get(f)
                    if have != want:
                        V("dirhash-mismatch", f"{k} {f}: manifest has {have}, definition gives {want}",
                          where=k[0], empty=not any(p.startswith(d + "/") for p in med) if d else not med)
        # verify -dh -co prints the same values: on the sealed tree (formats taken from the history) and on the
        # bare tree with an explicit -h (no history to compare against)
        sealed_fmts = list(fmts) + [f for f in (case.get("prior") or []) if f not in fmts]   # -co without -h prints every recorded format
        runs = [(post, None, sealed_fmts)] + [(med, f, [f]) for f in (fmts if len(fmts) == 1 else [fmts[0], fmts[-1]])]
        for t3, hopt, fl in runs:
            r2, _ = ops.run_cmd(ctx, t3, ["verify", {"root": "", "dh": True, "co": True, "h": hopt, "i": pats}], now + 20,
                                order=case.get("order"))
            stats["cmds"] += 1
            tag = "sealed" if hopt is None else "bare -h"
            if r2.exc or r2.exit not in (0, 12):
                V("abort-verify-co", f"verify -dh -co ({tag} {hopt or ''}): exit {r2.exit} {r2.exc}", on=tag)
                continue
            expected = set()
            for d in dirs_of(med):
                if d and excl(d, True):
                    continue
                for f in fl:
                    c, s = ref.dir_hashes(med, d, f, excl)
                    expected |= {c, s}
                    if c not in r2.out or s not in r2.out:
                        V("co-value-missing", f"verify -dh -co ({tag}): {f} hashes of '{d or '.'}' ({c}, {s}) not printed", on=tag)
            for line in r2.out.splitlines():
                if "(content)" in line and "(structure)" in line:
                    for tok in TOK.findall(line):
                        if tok not in expected:
                            V("co-value-wrong", f"verify -dh -co ({tag}) printed {tok} which is no directory hash of the tree: "
                              f"{line.strip()[:200]}", on=tag)
        # metamorphic: in-place rename and content edit, each sealed afresh (no history)
        if case.get("meta"):
            base = fresh_hashes(ctx, med, fmts, pats, now, case.get("order"))
            stats["cmds"] += 1
            for p in sorted(med):
                if excl(p, med[p] is DIR):
                    continue
                newp = (ref.parent(p) + "/" if ref.parent(p) else "") + "zz renamed"
                h2 = fresh_hashes(ctx, ops.edit(med, ["mv", p, newp]), fmts, pats, now, case.get("order"))
                stats["cmds"] += 1
                anc = ancestors(p)
                for a in anc:
                    for f in fmts:
                        b, n = base.get(a, {}).get(f), h2.get(a, {}).get(f)
                        if b is None or n is None:
                            continue
                        if b[0] != n[0]:
                            V("rename-changes-content-hash", f"rename {p} -> {newp}: content hash of '{a or '.'}' ({f}) changed")
                        if b[1] == n[1]:
                            V("rename-keeps-structure-hash", f"rename {p} -> {newp}: structure hash of '{a or '.'}' ({f}) unchanged")
                if med[p] is not DIR:
                    h3 = fresh_hashes(ctx, ops.edit(med, ["write", p, med[p] + b"!edit"]), fmts, pats, now, case.get("order"))
                    stats["cmds"] += 1
                    for a in anc:
                        for f in fmts:
                            b, n = base.get(a, {}).get(f), h3.get(a, {}).get(f)
                            if b is None or n is None:
                                continue
                            if b[0] == n[0] or b[1] == n[1]:
                                V("edit-keeps-hash", f"content edit of {p}: hashes of '{a or '.'}' ({f}) content "
                                  f"{'same' if b[0] == n[0] else 'changed'}, structure {'same' if b[1] == n[1] else 'changed'}")
    finally:
        sub.ORDER["perm"] = None
        sub.LINKS = {}
    return v, stats


def ancestors(p):
    out = [""]
    parts = p.split("/")[:-1]
    for i in range(1, len(parts) + 1):
        out.append("/".join(parts[:i]))
    return out


def fresh_hashes(ctx, med, fmts, pats, now, order):
    res, post = ops.run_cmd(ctx, med, ops.create("", fmts, i=pats), now, order=order)
    got = manifest_dirhashes(post)
    return {("" if k[0] == "root" else k[1]): v for k, v in got.items() if not (k[0] == "root" and k[1])}


def work(ctx, case):
    if "synthetic" in case:
        return synthetic(ctx, case["synthetic"]), {"cmds": 0, "dirs": 63}, "synthetic-" + case["synthetic"]
    vs, stats = eval_case(ctx, case)
    return vs, stats, engine.canon(case["tree"])


def _eval_only(ctx, case):
    if "synthetic" in case:
        return synthetic(ctx, case["synthetic"])
    return eval_case(ctx, case)[0]


def main(tier, seed):
    eng = engine.Engine(PROP, tier, seed, "model_checking")
    engine.selftest(eng)
    k = 5 if tier == "quick" else 6
    trees = c02.closed_subsets(c02.POOL, k)
    cases = []
    for t in trees:
        ds = [p for p, c in t.items() if c is DIR]
        for fs in FSETS:
            full = len(fs) > 1
            cases.append({"tree": t, "fmts": fs, "meta": full and len(t) <= (3 if tier == "quick" else 4)})
            if full:
                cases.append({"tree": t, "fmts": fs, "order": "reversed"})
                for d in ds:
                    cases.append({"tree": t, "fmts": fs, "nested": d})
        if len(t) <= 3:   # the same format requested more than once
            cases.append({"tree": t, "fmts": ["md5", "md5"]})
            cases.append({"tree": t, "fmts": ["xxh64", "c4", "xxh64"]})
        # ignored entries present: .DS_Store / *.tmp (user pattern) must not contribute
        if len(t) <= k - 1:
            for ip, ic in IGN:
                if ref.parent(ip) == "" or ref.parent(ip) in t:
                    t2 = dict(t); t2[ip] = ic
                    cases.append({"tree": t2, "fmts": ["md5"] if tier == "quick" else list(ref.FORMATS_CLI), "pats": ["*.tmp"]})
    for zt in ZERO_TREES:
        for fs in ([["c4"], list(ref.FORMATS_CLI)]):
            cases.append({"tree": zt, "fmts": fs, "meta": True})
    for st in SPECIAL_TREES:
        cases.append({"tree": st, "fmts": ["c4", "c4", "md5"]})
        for sp in ("slash", "slashdot", "dot", "rel", "symlink", "dotdot", "slashslash"):   # the root folder as a user may spell it
            cases.append({"tree": st, "fmts": ["md5", "xxh64"], "spell": sp})
            if st is SPECIAL_TREES[0] or tier != "quick":   # ... and as a later generation (the ascmhl folder exists already)
                cases.append({"tree": st, "fmts": ["md5", "xxh64"], "spell": sp, "prior": ["xxh64"]})
        for fs in ([["md5"], ["c4"], list(ref.FORMATS_CLI)]):
            cases.append({"tree": st, "fmts": fs, "meta": len(fs) == 1})
            cases.append({"tree": st, "fmts": fs, "order": "reversed"})
            cases.append({"tree": st, "fmts": fs, "prior": ["xxh64"]})
        cases.append({"tree": st, "fmts": ["xxh64", "md5"], "nested": sorted(p for p, c in st.items() if c is DIR)[0]})
        deep = sorted((p for p, c in st.items() if c is not DIR), key=lambda p: -p.count("/"))[0]
        for fs in (["md5"], ["xxh64", "md5"], ["c4", "sha1"], ["xxh64"]):
            cases.append({"tree": st, "fmts": fs, "prior": ["xxh64"], "alter": deep})
    cases.append({"tree": LINKTREE, "links": LINKS, "fmts": ["md5", "xxh64"]})
    cases.append({"tree": LINKTREE, "links": LINKS, "fmts": ["c4"], "prior": ["xxh64"]})
    cases.append({"tree": BLOCK, "fmts": ["md5", "xxh64"]})
    cases.append({"tree": BLOCK, "fmts": ["c4"]})
    for f in ref.FORMATS_CLI:
        cases.append({"synthetic": f, "tree": {}, "fmts": [f]})
    if tier == "thorough":
        rich = {p: c for p, c in c02.POOL}
        import itertools
        for n in range(1, 7):
            for fs in itertools.combinations(ref.FORMATS_CLI, n):
                cases.append({"tree": rich, "fmts": list(fs), "meta": n in (1, 6)})
    res = eng.pmap(work, cases)
    states = set()
    trans = 0
    dirs = 0
    for case, (vs, stats, key) in zip(cases, res):
        eng.add_viols(vs)
        states.add(key)
        trans += stats["cmds"]
        dirs += stats["dirs"]
        eng.outcome(("viol" if vs else "ok", len(case["fmts"]), bool(case.get("nested")), bool(case.get("meta"))))
    for c in [x for x in cases if "synthetic" not in x][:: max(1, len(cases) // 5)]:
        eng.sample({"tree": engine.tree_brief(c["tree"]), "fmts": c["fmts"], "nested": c.get("nested"), "order": c.get("order")})
    cov = {"states": len(states), "transitions": trans, "traces_validated_against_impl": trans, "exhaustive": True,
           "cases": len(cases), "directory_hash_comparisons": dirs,
           "rule": f"all parent-closed trees (size<={k}) over the C02 name pool x (six single formats + all six; small trees: a format requested twice) sealed by the real "
                   "create; every <directoryhash>/<roothash> value compared with the 12-line reference recursion; nested child at "
                   "every directory; reversed directory listing; ignored entries (.DS_Store, -i *.tmp) present; verify -dh -co "
                   "output; metamorphic in-place rename / content edit of every entry on freshly sealed trees; trees whose c4 file digest / "
                   "per-child structure digest starts with a zero byte; names that are not in Unicode NFC form next to their composed twins; the directory-hash context driven directly with synthetic child "
                   "digests (leading zero bytes, extremes) in every format"}
    return eng.finish(cov, _eval_only)


def replay(path):
    return engine.replay_file(path, _eval_only, PROP)
