"""C05 - any change to a chained manifest is detected before anything else happens (engine E3a, fault enumeration)"""
import os

from mc import engine, ref, ops, sub
from mc.engine import Viol
from props import c14

PROP = "C05"
DIR = None
T = {"a.txt": b"content of a", "d": DIR, "d/b.txt": b"content of b", "d/e": DIR, "d/e/c.txt": b"content of c"}


def histories(ctx):
    c = ops.create
    H = {}
    H["flat-2gen"] = ops.build(ctx, T, [c("", ["xxh64"]), c("", ["md5"])], expect=[0, 0])
    H["nested2-2gen"] = ops.build(ctx, T, [c("d", ["md5"]), c("", ["xxh64"]), c("", ["c4"])], expect=[0, 0, 0])
    H["nested3"] = ops.build(ctx, T, [c("d/e", ["sha1"]), c("d", ["md5"]), c("", ["xxh64"])], expect=[0, 0, 0])
    # a nested history below a hidden folder and in a folder with an unusual name
    t2 = {"a.txt": b"content of a", ".backup": DIR, ".backup/card": DIR, ".backup/card/c.txt": b"content of c", "d": DIR,
          "d/b.txt": b"content of b", "d/e": DIR, "d/e/c.txt": b"c", "sp ace #1": DIR, "sp ace #1/s.txt": b"s",
          "Card [A001]": DIR, "Card [A001]/k.txt": b"k",
          "d-proxy": DIR, "d-proxy/p.txt": b"p"}   # (a name that reads as a pattern to glob / regular expressions)
    # a long history (more than 8, more than 9 chain entries), alternating formats
    H["flat-11gen"] = ops.build(ctx, T, [c("", [["xxh64"], ["md5"], ["sha1"]][i % 3]) for i in range(11)], expect=[0] * 11)
    from mc import foreign
    fz = foreign.rewrite(H["flat-2gen"], "no-sequencenr") if H.get("flat-2gen") is not None else None
    if fz is not None and foreign.valid(fz):
        H["flat-2gen-chain-without-sequence-numbers"] = fz   # (the attribute is optional in the directory schema)
    H["nested-hidden"] = ops.build(ctx, t2, [c(".backup/card", ["md5"]), c("sp ace #1", ["md5"]), c("Card [A001]", ["md5"]),
                                         # sibling histories whose folder names share a leading part (d, d-proxy)
                                         c("d", ["md5"]), c("d-proxy", ["md5"]), c("", ["xxh64"])],
                                    expect=[0, 0, 0, 0, 0, 0])
    return H


def commands(tree):
    c = ops.create
    return [c("", ["xxh64"]), c("", ["xxh64"], sf=["a.txt"]), c("", ["md5"], sf=["d/e/c.txt"]), ["verify", {"root": ""}],
            ["verify", {"root": "", "dh": True}], ["diff", {"root": ""}], ["info", {"root": ""}],
            ["info", {"root": "", "sf": ["a.txt"]}], ["info", {"root": None, "sf": ["a.txt"]}],
            ["flatten", {"root": "", "dest": "{dest}"}], ["verify", {"root": "", "sf": "a.txt"}], c("", ["xxh64"], dr=True)]


def apply_fault(tree, f):
    t = dict(tree)
    p = f["path"]
    data = t[p]
    k, pos = f["kind"], f.get("pos", 0)
    if k == "remove":
        del t[p]
    elif k == "flip":
        t[p] = data[:pos] + bytes([data[pos] ^ (1 << f.get("bit", 0))]) + data[pos + 1:]
    elif k == "insert":
        t[p] = data[:pos] + b" " + data[pos:]
    elif k == "delete":
        t[p] = data[:pos] + data[pos + 1:]
    elif k == "truncate":
        t[p] = data[:pos]
    elif k == "append-newline":
        t[p] = data + b"\n"
    elif k == "cr-before-lf":      # one carriage return in front of the line feed at/after pos
        i = data.find(b"\n", pos)
        t[p] = data if i < 0 else data[:i] + b"\r" + data[i:]
    elif k == "unix2dos":          # every line end converted
        t[p] = data.replace(b"\n", b"\r\n")
    elif k == "strip-trailing-newline":
        t[p] = data.rstrip(b"\n")
    return t


def expected_exit(f):
    if f["kind"] == "remove":
        return 32 if f["path"].endswith("ascmhl_chain.xml") else 33
    return 31


def eval_case(ctx, case):
    """case: {name, tree, faults: [...], ops: [...]}; returns (viols, evaluations)"""
    v = []
    n = 0
    for f in case["faults"]:
        t = apply_fault(case["tree"], f)
        if t == case["tree"]:
            continue
        want = expected_exit(f)
        depth = f["path"].count("/") // 2   # 0 = root history, 1 = child, 2 = grandchild
        for op in case["ops"]:
            if op[0] == "info" and op[1].get("root") is None and depth > 0:
                pass  # info -sf a.txt searches upwards from the file: the root history is loaded (children included)
            ctx.fresh("dest")
            # the tampered file may carry any mtime: older than the chain file (a time-preserving copy, a backdated edit),
            # the same, or newer - detection must not depend on it
            mts = {f["path"]: sub.T0 + {"older": -5000, "newer": 5000}[f["mt"]]} if f.get("mt") in ("older", "newer") else None
            res, post, obs = ops.run_cmd(ctx, t, op, sub.NOW0 + 900, observe=True, subst={"dest": os.path.join(ctx.base, "dest")},
                                         mtimes=mts)
            n += 1
            sig = {"fault": f["kind"], "mtime": f.get("mt", "same"), "cmd": op[0] + ("-sf" if op[1].get("sf") else "") + ("-dh" if op[1].get("dh") else ""),
                   "level": depth, "file": "chain" if f["path"].endswith(".xml") else "manifest"}
            one = dict(case, faults=[f], ops=[op])
            desc = f"{case['name']}: {f['kind']} @{f.get('pos', '-')} of {f['path']} (mtime {f.get('mt', 'same')}) -> {ops.label(op)}"
            if res.exit != want:
                v.append(Viol(PROP, "wrong-exit", dict(sig, exit=res.exit if res.exit in (0, 1, 10, 11, 12, 21, 30, 31, 32, 33) else "other",
                                                       exc=(res.exc or "").split(":")[0] or None),
                              f"{desc}: exit {res.exit} {res.exc or ''}, expected {want}\n{res.err[-300:]}", one))
            diffs = c14.diff_meta(obs["meta_pre"], obs["meta_post"])
            if diffs:
                v.append(Viol(PROP, "wrote-something", dict(sig, what=diffs[0][1]), f"{desc}: changed on disk {diffs[:5]}", one))
    return v, n


def work(ctx, case):
    return eval_case(ctx, case)


def _eval_only(ctx, case):
    return eval_case(ctx, case)[0]


def positions(n, tier, kind):
    if tier == "thorough" and kind == "flip":
        return list(range(n))
    k = 16 if tier == "quick" else 64
    ps = {0, 1, n - 1} | {int(i * (n - 1) / (k + 1)) for i in range(1, k + 1)}
    return sorted(p for p in ps if 0 <= p < n)


def main(tier, seed):
    eng = engine.Engine(PROP, tier, seed, "fault_enumeration")
    engine.selftest(eng)
    H = engine.scenarios(eng, lambda: histories(eng.local_ctx()))
    H = {k: v for k, v in H.items() if v is not None}
    if not H:
        raise engine.HarnessError("no history could be built: " + str(eng.notes.get("skipped_scenarios")))
    cases = []
    nf = 0
    for name, tree in H.items():
        cmds = commands(tree)
        mans = [p for p in sorted(tree) if p.endswith(".mhl")]
        chains = [p for p in sorted(tree) if p.endswith("ascmhl_chain.xml")]
        faults = []
        for p in mans:
            n = len(tree[p])
            long_history = name == "flat-11gen"   # many manifests: a few faults in each of them
            for kind in ("flip", "truncate") if long_history else ("flip", "insert", "delete", "truncate"):
                for pos in ([1, n // 2, n - 1] if long_history else positions(n, tier, kind)):
                    faults.append({"path": p, "kind": kind, "pos": pos, "bit": (pos % 8) if kind == "flip" else 0})
            faults.append({"path": p, "kind": "append-newline"})
            # changes an editor or a transfer in text mode makes: line ends converted (one, all), the final newline stripped
            faults += [{"path": p, "kind": "cr-before-lf", "pos": 0}, {"path": p, "kind": "cr-before-lf", "pos": n // 2},
                       {"path": p, "kind": "unix2dos"}, {"path": p, "kind": "strip-trailing-newline"}]
            faults += [dict(x, mt=m) for x in list(faults) if x["path"] == p and "mt" not in x and not long_history
                       for m in (("older",) if tier == "quick" else ("older", "newer"))
                       if tier == "quick" or x["kind"] != "flip" or x["pos"] % 8 == 0]
            faults.append({"path": p, "kind": "remove"})
        for p in chains:
            faults.append({"path": p, "kind": "remove"})
        nf += len(faults)
        for i in range(0, len(faults), 6):
            cases.append({"name": name, "tree": tree, "faults": faults[i:i + 6], "ops": cmds})
    res = eng.pmap(work, cases)
    evals = 0
    for case, (vs, n) in zip(cases, res):
        eng.add_viols(vs)
        evals += n
        eng.outcome((case["name"], "viol" if vs else "ok"))
    for c in cases[:: max(1, len(cases) // 5)]:
        eng.sample({"history": c["name"], "fault": c["faults"][0], "commands": [ops.label(o) for o in c["ops"][:3]] + ["..."]})
    cov = {"evaluations": evals, "distinct_nontrivial": nf, "exhaustive": True, "faults": nf, "histories": sorted(H),
           "rule": "histories {flat 11 generations (a few faults per manifest), flat 2 generations, nested 2 levels (2 generations in the parent), nested 3 levels, nested below a hidden folder and in a folder with blanks}; for EVERY manifest "
                   "listed in any chain: bit flip / byte insertion / byte deletion / truncation at positions {0, 1, last, 16 evenly "
                   "spaced} (thorough: a bit flip at every byte position, the others at 64 positions), appended newline, removal; "
                   "every content fault with the tampered file's mtime equal to and older than the chain file's (thorough: also newer); "
                   "removal of every chain file; each fault x 12 history-reading commands (create, create -sf, create -dr, verify, "
                   "verify -sf, verify -dh, diff, info, info -sf with/without root, flatten); oracle: exit code exactly 31 / 33 / 32 "
                   "and an identical (type, bytes, size, mtime, mode) snapshot of root, destination, cwd; distinct = distinct faults"}
    return eng.finish(cov, _eval_only)


def replay(path):
    return engine.replay_file(path, _eval_only, PROP)
