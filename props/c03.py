"""C03 - verification reports every discrepancy and never a false one (engine E1: sealed bases x mutation sets)"""
import itertools

from mc import engine, ref, ops, sub
from mc.engine import Viol

PROP = "C03"
DIR = None
T = {"a.txt": b"content of a", "b.txt": b"content of b", "d": DIR, "d/c.txt": b"content of c", "d/e": DIR,
     "d/e/f.txt": b"content of f", "emp": DIR, "d/emp2": DIR,
     # names that have the nested root's name as a string prefix (routing must respect component boundaries)
     "d-proxy": DIR, "d-proxy/p.mov": b"content of p", "d.txt": b"content of d.txt"}
FAILED_CONTENT = b"A-altered-and-recorded-as-failed"


def bases(ctx, tier):
    """name -> (sealed tree, user patterns in force)"""
    B = {}
    c = ops.create
    B["flat1"] = (ops.build(ctx, T, [c("", ["xxh64"])], expect=[0]), [])
    B["flat2-format-change"] = (ops.build(ctx, T, [c("", ["md5"]), c("", ["c4", "xxh64"])], expect=[0, 0]), [])
    B["nested1"] = (ops.build(ctx, T, [c("d", ["md5"]), c("", ["xxh64"])], expect=[0, 0]), [])
    B["nested2"] = (ops.build(ctx, T, [c("d/e", ["sha1"]), c("d", ["md5"]), c("", ["xxh64"])], expect=[0, 0, 0]), [])
    t5 = dict(T); t5["x.tmp"] = b"ignored"; t5["d/y.tmp"] = b"ignored too"
    B["ignore-pattern"] = (ops.build(ctx, t5, [c("", ["xxh64"], i=["*.tmp"])], expect=[0]), ["*.tmp"])
    # order-dependent patterns: a negated pattern re-includes what an earlier glob excludes, an anchored one excludes one path only
    t6 = dict(t5); t6["keep.tmp"] = b"re-included"; t6["d/x.tmp"] = b"ignored (glob)"; t6["d/a.txt"] = b"same name as the anchored one"
    B["ignore-negated-anchored"] = (ops.build(ctx, t6, [c("", ["xxh64"], i=["*.tmp", "!keep.tmp", "/a.txt"])], expect=[0]),
                                    ["*.tmp", "!keep.tmp", "/a.txt"])
    # a path that changed its type between two sealed generations (directory -> file, file -> directory)
    t7 = dict(T); t7["was-dir"] = DIR
    B["retyped-paths"] = (ops.build(ctx, t7, [c("", ["md5"]), ["rm", "was-dir"], ["write", "was-dir", b"now a file"], ["rm", "a.txt"],
                                              ["mkdir", "a.txt"], ["write", "a.txt/inner.bin", b"inner"], c("", ["md5"])], expect=[0, None]), [])
    # names that are special to string formatting, Unicode normalisation or the shell
    t8 = {"100%_final.mov": b"percent sign", "br{ace}s {0}.txt": b"braces", "e\u0301.txt": b"decomposed e-acute", "\u00e9.txt": b"composed e-acute",
          "d %s": DIR, "d %s/in%d.txt": b"inside", "back\\slash.txt": b"backslash", " lead.txt": b"leading blank", "emp %": DIR}
    B["odd-names"] = (ops.build(ctx, t8, [c("", ["md5"]), c("", ["md5", "xxh64"])], expect=[0, 0]), [])
    # a nested history below a hidden folder (sealed on its own first)
    t9 = dict(T); t9[".staging"] = DIR; t9[".staging/card"] = DIR; t9[".staging/card/clip.mov"] = b"clip in a hidden folder"
    B["nested-hidden"] = (ops.build(ctx, t9, [c(".staging/card", ["md5"]), c("", ["xxh64"])], expect=[0, 0]), [])
    # ... and the same before the enclosing folder has a history of its own (only create can be asked there)
    B["only-nested-hidden"] = (ops.build(ctx, t9, [c(".staging/card", ["md5"])], expect=[0]), [])
    B["only-nested-plain"] = (ops.build(ctx, T, [c("d", ["md5"])], expect=[0]), [])
    # ... the same with the folder hashed in a format that the file which took its name is only sealed in later
    B["retyped-paths-other-format"] = (ops.build(ctx, t7, [c("", ["xxh64"]), ["rm", "was-dir"], ["write", "was-dir", b"now a file"],
                                                            c("", ["md5"])], expect=[0, None]), [])
    # hidden entries next to twins without the dot (a path must not lose or gain a leading dot on its way through the tool)
    t10 = {".meta": DIR, ".meta/clip.txt": b"hidden folder", "meta": DIR, "meta/clip.txt": b"visible twin", ".notes": b"hidden file",
           "notes": b"visible twin of the hidden file", "..data": DIR, "..data/x.bin": b"two dots"}
    B["hidden-twins"] = (ops.build(ctx, t10, [c("", ["md5"])], expect=[0]), [])
    # the same flat history as another tool may have written it (optional items missing, other legal date forms)
    from mc import foreign
    if B.get("flat2-format-change", (None,))[0] is not None:
        for var in ("no-size", "no-ignore", "no-sequencenr", "z-dates", "no-lastmod", "no-hashdate"):
            ft = foreign.rewrite(B["flat2-format-change"][0], var)
            if ft != B["flat2-format-change"][0] and foreign.valid(ft):
                B["foreign-" + var] = (ft, [])
    B["failed-generation"] = (ops.build(ctx, T, [c("", ["md5"]), ["write", "a.txt", FAILED_CONTENT], c("", ["md5"]),
                                                 ["write", "a.txt", T["a.txt"]]], expect=[0, 11]), [])
    B["empty-folder"] = (ops.build(ctx, {}, [c("", ["xxh64"])], expect=[0]), [])
    B["dirs-only"] = (ops.build(ctx, {"p": DIR, "p/q": DIR}, [c("", ["xxh64"])], expect=[0]), [])
    B["sf-then-folder"] = (ops.build(ctx, T, [c("", ["md5"], sf=["a.txt"]), c("", ["xxh64"])], expect=[0, 0]), [])
    if tier == "thorough":
        t3 = dict(T); t3["d/e/g"] = DIR; t3["d/e/g/h.txt"] = b"content of h"
        B["nested3"] = (ops.build(ctx, t3, [c("d/e/g", ["c4"]), c("d/e", ["sha1"]), c("d", ["md5"]), c("", ["xxh64"])],
                                  expect=[0, 0, 0, 0]), [])
        B["flat3"] = (ops.build(ctx, T, [c("", ["md5"]), c("", ["sha1"]), c("", ["xxh3", "xxh128"])], expect=[0, 0, 0]), [])
    return B


def mutations(tree, pats, base_name):
    """single mutations of the media part: list of (label, kind, edit op or ('touch', path))"""
    med = ref.media(tree)
    out = []
    for p, cont in sorted(med.items()):
        ign = ref.ignored(ref.DEFAULT_PATTERNS + pats, p, cont is DIR)
        if cont is DIR:
            if not any(q.startswith(p + "/") for q in med):
                out.append((f"rmdir {p}", ["rm", p]))
                if not ign:   # the recorded (empty) directory is replaced by a file of the same name
                    out.append((f"dir-becomes-file {p}", ["seq", ["rm", p], ["write", p, b"was a directory"]]))
            out.append((f"add {p}/new.bin", ["write", p + "/new.bin", b"new file"]))
            out.append((f"touch {p}", ["touch", p]))
            continue
        if ign:
            out.append((f"modify-ignored {p}", ["write", p, cont + b"!"]))
            out.append((f"delete-ignored {p}", ["rm", p]))
            continue
        flipped = bytes([cont[0] ^ 1]) + cont[1:] if cont else b"\x01"
        out.append((f"flip {p}", ["write", p, flipped]))
        out.append((f"append {p}", ["write", p, cont + b"+"]))
        out.append((f"truncate {p}", ["write", p, cont[:-3]]))
        out.append((f"empty {p}", ["write", p, b""]))
        out.append((f"delete {p}", ["rm", p]))
        if p.count("/") <= 1 and not ref.is_in_ascmhl(p):   # the recorded file is replaced by a directory of the same name
            out.append((f"file-becomes-dir {p}", ["seq", ["rm", p], ["mkdir", p], ["write", p + "/inner.bin", b"inside the new directory"]]))
        out.append((f"touch {p}", ["touch", p]))
    out.append(("add new.bin", ["write", "new.bin", b"new file in root"]))
    out.append(("touch .", ["touch", ""]))
    if pats:
        out.append(("create-ignored z.tmp", ["write", "z.tmp", b"fresh ignored"]))
        out.append(("create-ignored d/z.tmp", ["write", "d/z.tmp", b"fresh ignored"]))
    if base_name == "failed-generation":
        out.append(("set a.txt to the content of the failed generation", ["write", "a.txt", FAILED_CONTENT]))
    return out


def apply_muts(tree, muts):
    t, mt = dict(tree), {}
    for label, e in muts:
        if e[0] == "touch":
            if e[1] == "" or e[1] in t:
                mt[e[1]] = sub.T0 + 777
        else:
            for e1 in (e[1:] if e[0] == "seq" else [e]):
                if e1[0] in ("write", "mkdir") and ref.parent(e1[1]) and t.get(ref.parent(e1[1]), 0) is not DIR:
                    return None, None
                if e1[0] == "rm" and (e1[1] not in t or any(q.startswith(e1[1] + "/") for q in t)):
                    return None, None
                if e1[0] in ("write", "mkdir") and t.get(e1[1], 0) is DIR:
                    return None, None
                t = ops.edit(t, e1)
    return t, mt


def classify(base_tree, mut_tree, pats):
    """failure classes from the difference of the media trees: recorded = non-ignored entries of the base"""
    allp = ref.DEFAULT_PATTERNS + pats
    b, m = ref.media(base_tree), ref.media(mut_tree)
    altered, removed, new = [], [], []
    roots = ref.history_roots(base_tree)
    for p, c in b.items():
        if ref.ignored(allp, p, c is DIR):
            continue
        if "" not in roots and not any(p.startswith(hr + "/") for hr in roots):
            continue   # no history covers this entry (bases in which only a sub-folder was sealed)
        if p not in m or (c is DIR) != (m[p] is DIR):
            removed.append(p)   # gone, or no longer an entry of the recorded type
            if p in m and m[p] is not DIR:
                new.append(p)   # ... and the file now at that path was never recorded
        elif c is not DIR and m[p] is not DIR and m[p] != c:
            altered.append(p)
    for p, c in m.items():
        if p not in b and c is not DIR and not ref.ignored(allp, p, False):
            new.append(p)
    return altered, removed, new


CODES = {"verify": {"altered": 11, "removed": 10, "new": 21}, "create": {"altered": 11, "removed": 10},
         "diff": {"removed": 10, "new": 21}}


def eval_case(ctx, case):
    base, pats, muts, cmd = case["base"], case["pats"], case["muts"], case["cmd"]
    t, mt = apply_muts(base, muts)
    if t is None:
        return []
    return judge_res(ctx, case, t, mt)


def judge_res(ctx, case, t, mt, res=None):
    """run the command of the case on the mutated tree t (unless its result is given) and judge the answer"""
    base, pats, muts, cmd = case["base"], case["pats"], case["muts"], case["cmd"]
    altered, removed, new = classify(base, t, pats)
    present = {"altered": altered, "removed": removed, "new": new}
    op = {"verify": ["verify", {"root": ""}], "diff": ["diff", {"root": ""}],
          "create": ops.create("", case.get("fmts") or ["xxh64"]),
          "verify-sf": ["verify", {"root": "", "sf": case.get("sf"), "sf_raw": case.get("sf_form") == "relative"}]}[cmd]
    if case.get("spell") or case.get("v"):   # the root folder as a user may spell it / verbose output
        op = [op[0], dict(op[1], spell=case.get("spell"), v=bool(case.get("v")))]
    if res is None:
        res, post = ops.run_cmd(ctx, t, op, sub.NOW0 + 500, mtimes=mt)
    v = []
    sig = {"cmd": cmd, "base": case["name"], "classes": "+".join(k for k in ("altered", "removed", "new") if present[k]) or "none",
           "exit": res.exit}
    if case.get("spell") or case.get("v"):
        sig["form"] = (case.get("spell") or "") + ("-v" if case.get("v") else "")

    def V(kind, detail, **extra):
        v.append(Viol(PROP, kind, dict(sig, **extra), detail, case))

    if cmd == "verify-sf":
        # one recorded file that is still there: 11 if its content was altered; otherwise 0 (an entry that is missing elsewhere
        # may still be reported: 10) - whatever else was altered or added
        v2 = []
        f = case["sf"]
        want1 = 11 if f in altered else 0
        if not want1 and removed and res.exit == 10 and res.exc is None:
            return v2
        desc1 = f"{case['name']} + {[m[0] for m in muts]} -> verify -sf {f} ({case.get('sf_form')} path)"
        s2 = {"cmd": "verify-sf", "base": case["name"], "classes": "altered" if want1 else "none", "exit": res.exit, "form": case.get("sf_form")}
        if res.exc is not None:
            v2.append(Viol(PROP, "abort", dict(s2, exc=res.exc.split(":")[0]), f"{desc1}: exit {res.exit} {res.exc} {res.tb}", case))
        elif res.exit != want1:
            v2.append(Viol(PROP, "wrong-exit" if want1 else "false-alarm", dict(s2, want=[want1]),
                           f"{desc1}: exit {res.exit}, expected {want1}\n{res.err[-300:]}", case))
        elif want1 and f not in (res.out + res.err) and f.split("/")[-1] not in (res.out + res.err):
            v2.append(Viol(PROP, "path-not-named", dict(s2, cls="altered"), f"{desc1}: the altered file is not named\n{res.err[-300:]}", case))
        return v2
    want = {CODES[cmd][k] for k in present if present[k] and k in CODES[cmd]}
    if present["altered"] and cmd in ("verify", "create"):
        want = {11}   # "if a recorded file's content was altered, verify and create exit with 11" - whatever else changed
    desc = f"{case['name']} + {[m[0] for m in muts]} -> {cmd}" + (f" (root spelled '{case['spell']}')" if case.get("spell") else "") + \
        (" -v" if case.get("v") else "")
    if res.exc is not None:
        V("abort", f"{desc}: exit {res.exit} {res.exc} {res.tb}", exc=res.exc.split(":")[0])
        return v
    if not want:
        if res.exit != 0:
            V("false-alarm", f"{desc}: exit {res.exit} although nothing this command checks has changed\n{res.err[-400:]}")
    elif res.exit not in want:
        V("wrong-exit", f"{desc}: exit {res.exit}, expected one of {sorted(want)} (altered={altered} removed={removed} new={new})\n"
          f"{res.err[-400:]}", want=sorted(want))
    text = res.out + "\n" + res.err
    roots = ref.history_roots(base)
    for k in present:
        if k not in CODES[cmd]:
            continue
        for p in present[k]:
            names = {p, ref.rel_to(ref.history_for_path(roots, p), p)}
            if not any(n in text for n in names):
                V("path-not-named", f"{desc}: {k} path {p} is not named in the output\n{text[-500:]}", cls=k)
    return v


def work(ctx, case):
    return eval_case(ctx, case)


def main(tier, seed):
    eng = engine.Engine(PROP, tier, seed, "model_checking")
    engine.selftest(eng)
    def covers(f):
        # a set-up step that seals an UNCHANGED tree again and does not exit 0 contradicts the first sentence of C03: it is judged
        # like any other case (and confirmed / replayed through eval_case); other failing steps only skip their base
        o = f.op[1]
        if f.want != 0 or o.get("sf") or o.get("root") or o.get("i") or not ref.generations(f.tree, ""):
            return None
        case = {"name": "setup", "base": f.tree, "pats": [], "muts": [], "cmd": "create", "fmts": o.get("fmts")}
        vs = judge_res(None, case, f.tree, {}, res=f.res)
        return vs[0] if vs else None
    B = engine.scenarios(eng, lambda: bases(eng.local_ctx(), tier), covers)
    B = {k: v for k, v in B.items() if v[0] is not None}
    cases = []
    states = set()
    for name, (tree, pats) in B.items():
        singles = mutations(tree, pats, name)
        sets = [[]] + [[m] for m in singles]
        pair_ok = tier == "thorough" or name in ("flat1", "nested1", "ignore-pattern")
        if pair_ok:
            sets += [list(c) for c in itertools.combinations(singles, 2)]
        if tier == "thorough" and name in ("flat1",):
            core = [m for m in singles if m[0].split()[0] in ("flip", "delete", "add", "rmdir")]
            sets += [list(c) for c in itertools.combinations(core, 3)]
        for ms in sets:
            t, mt = apply_muts(tree, ms)
            if t is None:
                continue
            states.add((engine.canon(t), tuple(sorted(mt))))
            for cmd in ("verify", "diff", "create"):
                if name.startswith("only-nested") and cmd != "create":
                    continue
                cases.append({"name": name, "base": tree, "pats": pats, "muts": ms, "cmd": cmd})
                if cmd == "verify" and len(ms) <= 1 and name in ("flat1", "nested1", "nested2", "odd-names", "hidden-twins"):
                    medt = ref.media(t)
                    for f in [p for p, cc in sorted(ref.media(tree).items()) if cc is not DIR and medt.get(p, DIR) is not DIR][:8]:
                        for form in ("absolute", "relative"):
                            cases.append({"name": name, "base": tree, "pats": pats, "muts": ms, "cmd": "verify-sf", "sf": f, "sf_form": form})
                if len(ms) <= 1 and name in ("flat1", "nested1", "ignore-negated-anchored", "hidden-twins"):
                    for sp in ("slash", "slashdot", "dot", "rel", "symlink", "dotdot", "slashslash"):
                        cases.append({"name": name, "base": tree, "pats": pats, "muts": ms, "cmd": cmd, "spell": sp})
                    cases.append({"name": name, "base": tree, "pats": pats, "muts": ms, "cmd": cmd, "v": True})
    res = eng.pmap(work, cases)
    for case, vs in zip(cases, res):
        eng.add_viols(vs)
        eng.outcome((case["cmd"], "viol" if vs else "ok", len(case["muts"])))
    for c in cases[:: max(1, len(cases) // 6)]:
        eng.sample({"base": c["name"], "mutations": [m[0] for m in c["muts"]], "cmd": c["cmd"]})
    cov = {"states": len(states), "transitions": len(cases), "traces_validated_against_impl": len(cases), "exhaustive": True,
           "bases": sorted(B),
           "rule": "sealed bases (flat 1/2/3 generations with format change, nested 1-3 levels, user ignore pattern, a failed "
                   "generation, empty folder, directories only, -sf then folder) x every single mutation (flip/append/truncate/"
                   "delete of every file, rmdir of every empty directory, add a file in every directory, touch of every entry, "
                   "create/modify/delete of ignored files) and every pair (quick: on three bases; thorough: everywhere, "
                   "triples on flat1) x {verify, diff, create}; single mutations on three bases also with the root spelled 'dir/', 'dir/.', '.', "
                   "'./dir', through a symbolic link and with -v; verify -sf of every recorded file (absolute and root-relative path) after every "
                   "single mutation on five bases; expected exit-code class and named paths derived from the "
                   "tree difference"}
    eng.assumptions.append("combined failures: any code of a failure class that is present for that command is accepted (the statement ranks none)")
    return eng.finish(cov, eval_case)


def replay(path):
    return engine.replay_file(path, eval_case, PROP)
