"""C14 - commands touch nothing beyond what they document (snapshot + audit oracle)"""
import os
import tempfile

from mc import engine, ref, ops, sub
from mc.engine import Viol
from props import e1

PROP = "C14"
DIR = None
T = {"a.txt": b"content of a", "b.txt": b"", "d": DIR, "d/c.txt": b"content of c", "d/e": DIR, "d/e/f.txt": b"content of f",
     "emp": DIR, "x.tmp": b"tmp"}
READONLY = ("verify", "diff", "info", "hash", "xsd-schema-check")


def diff_meta(a, b):
    """[(path, what)] differences between two metadata snapshots"""
    out = []
    for p in sorted(set(a) | set(b)):
        if p not in b:
            out.append((p, "deleted"))
        elif p not in a:
            out.append((p, "created"))
        else:
            x, y = a[p], b[p]
            if x[0] != y[0]:
                out.append((p, "type"))
            elif x[1] != y[1] or x[2] != y[2]:
                out.append((p, "content"))
            elif x[4] != y[4]:
                out.append((p, "mode"))
            elif x[3] != y[3]:
                out.append((p, "mtime"))
    return out


def judge(pre, op, post, res, obs, meta):
    """e1-compatible oracle; obs must hold meta_pre / meta_post / audit (observe=True)"""
    if not obs or "meta_pre" not in obs:
        return []
    v = []
    name = op[0]
    o = op[1]
    diffs = diff_meta(obs["meta_pre"], obs["meta_post"])
    sig = {"cmd": name}

    def V(kind, detail, **extra):
        v.append(Viol(PROP, kind, dict(sig, **extra), detail))

    if name in READONLY:
        form = "+".join(k for k in ("dh", "co", "ro", "sf", "pl") if o.get(k)) or "plain"
        sig["form"] = form
        if diffs:
            V("readonly-modified-disk", f"{ops.label(op)} (exit {res.exit}) changed: {diffs[:6]}", what=diffs[0][1])
        wr = [e for e in obs["audit"]]
        if wr:
            V("readonly-write-event", f"{ops.label(op)} (exit {res.exit}) issued write-type operations: {wr[:5]}", ev=wr[0][0])
        return v
    if name == "flatten":
        d = o.get("dest", "")
        allowed = "dest" if d.startswith("{dest}") else "cwd/" + d.split("/")[0]   # relative: below the working directory
        bad = [(p, w) for p, w in diffs if not (p == allowed or p.startswith(allowed + "/") or
                                                (p == "cwd" and w == "mtime" and allowed.startswith("cwd/")))]
        if bad:
            V("flatten-outside-destination", f"{ops.label(op)} (exit {res.exit}) changed outside its destination: {bad[:6]}",
              what=bad[0][1])
        return v
    if name == "create":
        R = o.get("root", "")
        created_ascmhl = set()
        for p, w in diffs:
            if w == "created" and p.startswith("root/") and p.split("/")[-1] == "ascmhl" and obs["meta_post"][p][0] == "d":
                created_ascmhl.add(p)
        # ascmhl folders that received a new manifest in this run: only there may the chain file (and the folder's own
        # mtime) change - a history that gets no generation is not "in scope" (create -sf only touches the histories on the
        # path to the named files)
        got_manifest = {p.rsplit("/", 1)[0] for p, w in diffs if w == "created" and p.endswith(".mhl") and "/ascmhl/" in p}
        # what the effective patterns (latest generation of the history at R + those given) exclude is not part of the run
        gens_R = ref.generations(pre, R)
        eff = list(ref.read_manifest(gens_R[-1]["bytes"])["ignore"] or []) if gens_R else []
        eff += [g for g in (o.get("i") or []) if g not in eff]
        eff = [g for g in eff if g not in ref.DEFAULT_PATTERNS]
        for p, w in diffs if eff and not o.get("sf") else []:
            rel = p[5:] if p.startswith("root/") else None
            if rel and (R == "" or rel.startswith(R + "/")):
                rr = rel[len(R) + 1:] if R else rel
                anc = [rr.split("/")[:i] for i in range(1, rr.count("/") + 1)]
                if any(ref.ignored(eff, "/".join(a), True) for a in anc):
                    V("create-touched-excluded-folder", f"{ops.label(op)}: {rel} {w} although a folder above it is excluded by {eff}", what=w)
        if o.get("sf"):
            # with -sf the histories in scope are those on the way from the root to a named entry (and those below a named folder)
            for folder in sorted(got_manifest):
                h = folder[5:-len("/ascmhl")] if folder != "root/ascmhl" else ""
                on_the_way = any(h == "" or q == h or q.startswith(h + "/") or h.startswith(q + "/") for q in o["sf"])
                if not on_the_way:
                    V("create-sf-generation-in-unrelated-history", f"{ops.label(op)}: history '{h}' received a generation although none of the "
                      f"named entries {o['sf']} lies in it")
        # whatever happens to the run: a history receives at most one manifest, and a manifest that is there is listed in its chain
        for folder in sorted(got_manifest):
            newm = sorted(p for p, w in diffs if w == "created" and p.startswith(folder + "/") and p.endswith(".mhl"))
            if len(newm) > 1:
                V("create-several-manifests-in-one-history", f"{ops.label(op)} (exit {res.exit}): {len(newm)} new manifests in {folder[5:]}: "
                  f"{[m.split('/')[-1] for m in newm]}")
            chain = post.get((folder[5:] + "/ascmhl_chain.xml").lstrip("/")) if folder != "root/ascmhl" else post.get("ascmhl/ascmhl_chain.xml")
            try:
                listed = {e["path"] for e in ref.read_chain(chain)} if chain is not None else set()
            except Exception:
                listed = set()
            for m in newm:
                if m.split("/")[-1] not in listed:
                    V("create-manifest-not-chained", f"{ops.label(op)} (exit {res.exit}): {m[5:]} is not listed in the chain file of its history")
        for p in sorted(created_ascmhl):
            # a run at R creates the history of R when there is none; it never founds a history anywhere else
            if p != ("root/" + R + "/ascmhl" if R else "root/ascmhl"):
                V("create-founded-another-history", f"{ops.label(op)}: a new history folder {p[5:]} appeared (the command's root is '{R or '.'}')")
        for p, w in diffs:
            if not (p == "root" or p.startswith("root/")):
                V("create-outside-root", f"{ops.label(op)}: {p} {w}", what=w)
                continue
            rel = p[5:]
            parts = rel.split("/") if rel else []
            if "ascmhl" in parts:
                i = parts.index("ascmhl")
                hroot = "/".join(parts[:i])
                in_scope = R == "" or hroot == R or hroot.startswith(R + "/")
                tail = parts[i + 1:]
                folder = "root/" + "/".join(parts[:i + 1])
                if not in_scope:
                    V("create-out-of-scope-history", f"{ops.label(op)}: {rel} {w} (history outside the command's root)", what=w)
                elif folder not in got_manifest and res.exc is not None and res.exc.split(":")[0] in ("OSError", "FileNotFoundError", "PermissionError") \
                        and folder not in obs["meta_pre"] and tail in ([], ["ascmhl_chain.xml"]) and w == "created":
                    pass   # the operating system refused a file of this run: a new, still empty history folder is what a first run that
                    # did not get through leaves behind ("no history yet")
                elif folder not in got_manifest:
                    V("create-touched-history-without-generation", f"{ops.label(op)}: {rel} {w} although this history received no "
                      f"new generation in this run", what=w, sf=bool(o.get("sf")))
                elif not tail:
                    if w not in ("created", "mtime"):
                        V("create-ascmhl-folder", f"{ops.label(op)}: folder {rel} {w}", what=w)
                elif len(tail) == 1 and tail[0] == "ascmhl_chain.xml":
                    if w not in ("created", "content", "mtime"):
                        V("create-chain", f"{ops.label(op)}: {rel} {w}", what=w)
                elif len(tail) == 1 and tail[0].endswith(".mhl") and w == "created":
                    pass
                elif len(tail) == 1 and tail[0] == "ascmhl_chain.xml.tmp" and p in obs["meta_pre"]:
                    pass   # a stale temporary chain file is overwritten and renamed away by the run that writes the chain
                else:
                    V("create-history-entry", f"{ops.label(op)}: {rel} {w} (only a new manifest and the chain file may change)",
                      what=w, manifest=tail[-1].endswith(".mhl"))
            else:
                # media file or directory
                if w == "mtime" and ("root/" + (rel + "/" if rel else "") + "ascmhl") in created_ascmhl:
                    continue
                V("create-touched-media", f"{ops.label(op)} (exit {res.exit}): media entry '{rel or '.'}' {w}", what=w,
                  isdir=obs["meta_pre"].get(p, obs["meta_post"].get(p))[0] == "d")
        return v
    return v


def observed(ctx, tree, op, now, prep_pl=False, prep_link=False):
    base = ctx.base
    for d in ("cwd", "tmp", "dest"):
        ctx.fresh(d)
    sub.materialise(ctx.root, tree)
    subst = {"dest": os.path.join(base, "dest"), "pl": ""}
    if prep_pl:
        r0 = ctx.run("flatten", [ctx.root, subst["dest"]], now=now - 5)
        pls = [p for p in sub.readback(subst["dest"]) if p.endswith(".mhl")]
        subst["pl"] = os.path.join(subst["dest"], pls[0]) if pls else os.path.join(subst["dest"], "missing.mhl")
        sub.reset_mtimes(ctx.root)
    if prep_link:
        # a folder OUTSIDE the root that has a history of its own, reachable inside the root through a symbolic link
        vault = os.path.join(base, "vault")
        sub.rm(vault)
        os.makedirs(vault)
        with sub.REAL["open"](os.path.join(vault, "b.txt"), "wb") as f:
            f.write(b"content of a file in the linked folder")
        ctx.run("create", [vault, "-h", "md5"], now=now - 50)
        os.symlink(vault, os.path.join(ctx.root, "external"))
        sub.reset_mtimes(vault)
        sub.reset_mtimes(ctx.root)
    old_tmp = os.environ.get("TMPDIR")
    os.environ["TMPDIR"] = os.path.join(base, "tmp")
    tempfile.tempdir = None
    try:
        return ops.run_cmd(ctx, tree, op, now, cwd=os.path.join(base, "cwd"), keep=True, observe=True, subst=subst)
    finally:
        if old_tmp is None:
            os.environ.pop("TMPDIR", None)
        else:
            os.environ["TMPDIR"] = old_tmp
        tempfile.tempdir = None


def eval_case(ctx, case):
    if "oracle" in case:   # a transition of a borrowed exploration
        return e1.eval_case(ctx, case)
    res, post, obs = observed(ctx, case["tree"], case["op"], sub.NOW0 + 100, case.get("prep_pl", False), case.get("prep_link", False))
    vs = judge(case["tree"], case["op"], post, res, obs, {})
    for x in vs:
        x.case = case
        x.detail = f"[state {case['state']}] " + x.detail
    return vs, res.exit


def work(ctx, case):
    return eval_case(ctx, case)


def _eval_only(ctx, case):
    r = eval_case(ctx, case)
    return r[0] if isinstance(r, tuple) else r


def states(ctx):
    c = ops.create
    S = {"no-history": T}
    flat = ops.build(ctx, T, [c("", ["xxh64"], i=["*.tmp"])], expect=[0])
    nested = ops.build(ctx, T, [c("d", ["md5"]), c("", ["xxh64", "c4"])], expect=[0, 0])
    if flat is None or nested is None:
        return S
    S["flat"] = flat
    S["nested"] = nested
    mp = ref.generations(flat, "")[0]["path"]
    tam = dict(flat); tam[mp] = tam[mp].replace(b"<hashlist", b"<hashlist ", 1)
    S["tampered-31"] = tam
    cm = dict(nested); del cm["d/ascmhl/ascmhl_chain.xml"]
    S["child-chain-missing-32"] = cm
    S["missing-file-10"] = ops.edit(flat, ["rm", "a.txt"])
    S["altered-file-11"] = ops.edit(flat, ["write", "a.txt", b"altered"])
    S["new-file-21"] = ops.edit(flat, ["write", "new.bin", b"new"])
    S["nested-altered"] = ops.edit(nested, ["write", "d/c.txt", b"altered"])
    # what an interrupted run (or a user) may leave inside ascmhl folders: stale temporary files, a note
    left = dict(nested)
    left["ascmhl/0002_root_2020-07-01_120000Z.mhl.tmp"] = nested[ref.generations(nested, "")[0]["path"]][:200]
    left["ascmhl/ascmhl_chain.xml.tmp"] = b"<?xml version"
    left["d/ascmhl/ascmhl_chain.xml.tmp"] = b""
    left["d/ascmhl/notes.txt"] = b"a note somebody left here"
    S["nested-with-leftovers"] = left
    # folders whose name is a case variant of the tool's own folder name are ordinary media folders (on this file system)
    cv = dict(flat)
    cv.update({"d/ASCMHL": DIR, "d/e/Ascmhl": DIR, "d/e/Ascmhl/notes.txt": b"not a history", "AscMhl": DIR})
    S["case-variant-folders"] = cv
    # a nested history inside a folder that the enclosing history excludes (pattern recorded in its latest generation), plus a
    # file that is new: nothing below the excluded folder may be touched by any form of create
    ign = ops.build(ctx, T, [c("d", ["md5"]), c("", ["xxh64"], i=["d/"])], expect=[0, 0])
    if ign is not None:
        S["nested-excluded+new-file"] = ops.edit(ign, ["write", "fresh.bin", b"new file"])
    # a folder whose name is too long for a manifest named after it (the operating system refuses the file name): a create there
    # fails - what it did before failing stays within the rules (here: the nested history below it is written first)
    lng = ops.build(ctx, dict(T, **{LONGNAME: DIR, LONGNAME + "/card": DIR, LONGNAME + "/card/f.txt": b"content of f"}),
                    [c(LONGNAME + "/card", ["md5"])], expect=[0])
    if lng is not None:
        S["nested-below-overlong-name"] = lng
    return S


LONGNAME = "N" * 240


def command_forms(tree):
    c = ops.create
    mans = [p for p in tree if p.endswith(".mhl")]
    chains = [p for p in tree if p.endswith("ascmhl_chain.xml")]
    f = [["verify", {"root": ""}], ["verify", {"root": "", "v": True}], ["verify", {"root": "", "sf": "a.txt"}],
         ["verify", {"root": "", "sf": "d/c.txt"}], ["verify", {"root": "", "dh": True}], ["verify", {"root": "", "dh": True, "co": True}],
         ["verify", {"root": "", "dh": True, "ro": True}], ["verify", {"root": "", "dh": True, "h": "md5"}],
         ["verify", {"root": "", "dh": True, "co": True, "v": True}], ["verify", {"root": "", "i": ["*.txt"]}],
         ["verify", {"root": "d"}], ["diff", {"root": ""}], ["diff", {"root": "", "v": True}], ["diff", {"root": "d"}],
         ["info", {"root": ""}], ["info", {"root": "", "v": True}], ["info", {"root": "", "sf": ["a.txt"]}],
         ["info", {"root": None, "sf": ["d/c.txt"]}], ["info", {"root": "", "sf": ["d/c.txt"], "v": True}],
         ["hash", {"file": "a.txt", "h": "md5"}], ["hash", {"file": "d/c.txt", "h": "c4"}],
         ["flatten", {"root": "", "dest": "{dest}"}], ["flatten", {"root": "", "dest": "{dest}/sub"}],
         ["flatten", {"root": "d", "dest": "{dest}"}], ["flatten", {"root": "", "dest": "out_rel"}],
         ["flatten", {"root": "", "dest": "out_rel/deeper"}],
         c("", ["xxh64"]), c("", ["xxh64"], v=True), c("", ["xxh64"], sf=["a.txt"], v=True), c("", ["md5", "c4"], n=True), c("", ["xxh64"], dr=True), c("", ["xxh64"], i=["*.txt"]),
         c("", ["xxh64"], sf=["a.txt"]), c("", ["xxh64"], sf=["d/c.txt"]), c("", ["xxh64"], sf=["d"]), c("d", ["sha1"]),
         c("d/e", ["xxh3"]), c("emp", ["xxh64"]), c("", ["xxh64"], extra=["--author_name", "X", "--comment", "c"])]
    if LONGNAME in tree:
        f += [c(LONGNAME, ["md5"]), c(LONGNAME, ["md5"], n=True), c("", ["md5"], sf=[LONGNAME + "/card/f.txt"]), ["verify", {"root": LONGNAME}]]
    pl = [["verify", {"root": "", "pl": "{pl}"}], ["verify", {"root": "", "pl": "{pl}", "sf": "a.txt"}]]
    for m in mans[:2]:
        f.append(["xsd-schema-check", {"file": m, "xsd": "/repo/xsd/ASCMHL.xsd"}])
    for ch in chains[:1]:
        f.append(["xsd-schema-check", {"file": ch, "df": True, "xsd": "/repo/xsd/ASCMHLDirectory__combined.xsd"}])
    return f, pl


def main(tier, seed):
    eng = engine.Engine(PROP, tier, seed, "model_checking")
    engine.selftest(eng)
    S = engine.scenarios(eng, lambda: states(eng.local_ctx()))
    cases = []
    for sname, tree in S.items():
        forms, pl = command_forms(tree)
        for op in forms:
            cases.append({"state": sname, "tree": tree, "op": op})
        for op in pl:
            cases.append({"state": sname, "tree": tree, "op": op, "prep_pl": True})
    # the root named as <link>/../<folder> (the OS follows the link first; the textually collapsed path is another, existing folder)
    for sname in ("no-history", "flat", "nested"):
        if sname in S:
            for op in command_forms(S[sname])[0]:
                if op[1].get("root") is not None and "file" not in op[1]:
                    cases.append({"state": sname, "tree": S[sname], "op": [op[0], dict(op[1], spell="dotdot")]})
    # a file named through a symbolic link to a folder outside the root (that folder has a history of its own): the record goes
    # into the root's history, the linked history is not in scope
    if "flat" in S:
        c = ops.create
        for op in (c("", ["xxh64"], sf=["external/b.txt"]), c("", ["md5"], sf=["external/b.txt", "a.txt"]), ["verify", {"root": "", "sf": "external/b.txt"}],
                   ["info", {"root": "", "sf": ["external/b.txt"]}]):
            cases.append({"state": "flat+linked-folder", "tree": S["flat"], "op": op, "prep_link": True})
    res = eng.pmap(work, cases)
    for case, (vs, ex) in zip(cases, res):
        eng.add_viols(vs)
        eng.outcome((case["op"][0], ex, "viol" if vs else "ok"))
    for c in cases[:: max(1, len(cases) // 6)]:
        eng.sample({"state": c["state"], "op": ops.label(c["op"])})
    st, tr = len(S), len(cases)
    runs = []
    # the same oracle as an always-on invariant over whole explorations (C06 / C08 alphabets)
    from props import c06, c08
    borrowed = [("c06", [(dict(c06.BASE), dict(alpha="c06", oracles=["c14"], observe=True, cmds=0, edits=0,
                                                    max_cmds=3 if tier == "quick" else 4, max_edits=1, rich=True), "c06-base")]),
                ("c08", [(c08.base_tree(c08.DIRS), dict(alpha="c08", oracles=["c14"], observe=True, cmds=0,
                                                         max_cmds=3 if tier == "quick" else 4, rich=True), "c08-tree")])]
    for name, inits in borrowed:
        r = engine.bfs(eng, e1.expand, inits, max_depth=6, label=ops.label, state_cap=200000)
        runs.append(dict(alphabet=name, **r))
        st += r["states"]
        tr += r["transitions"]
    cov = {"states": st, "transitions": tr, "traces_validated_against_impl": tr, "exhaustive": not eng.caps,
           "command_matrix_cases": len(cases), "matrix_states": sorted(S), "borrowed_explorations": runs,
           "rule": "every command form (verify plain/-v/-sf/-dh/-dh -co/-dh -ro/-dh -h/-pl/-i, diff, info plain/-v/-sf with and "
                   "without root, hash, xsd-schema-check, flatten to an existing / new / nested destination, create with each "
                   "option incl. -sf into nested histories and creates at sub-directories) x states {no history, flat, nested, "
                   "tampered manifest, missing child chain, missing / altered / new file, stale temporary files and a note inside the ascmhl folders}; plus every transition of the C06 and "
                   "C08 explorations; oracle = full (type, bytes, size, mtime_ns, mode) snapshot of the scratch base (root, "
                   "cwd, TMPDIR, destination) before/after + write-type audit events"}
    eng.assumptions.append("mtime of a directory in which this very command created an ascmhl folder may change (documented behaviour)")
    return eng.finish(cov, _eval_only)


def replay(path):
    return engine.replay_file(path, _eval_only, PROP)
