"""C09 - directory-hash verification detects any change anywhere in the tree (engine E1: bases x mutations)"""
import itertools
import unicodedata

from mc import engine, ref, ops, sub
from mc.engine import Viol

PROP = "C09"
DIR = None
FLAT = {"a.txt": b"content of a", "b.txt": b"content of b"}
T = {"a.txt": b"content of a", "d": DIR, "d/c.txt": b"content of c", "d/e": DIR, "d/e/f.txt": b"content of f", "emp": DIR,
     "d/\u00fcml\u00e4ut \u00df.txt": b"utf-8 name", "cafe\u0301": DIR, "cafe\u0301/n.txt": b"in a folder with a decomposed name"}


def bases(ctx, tier):
    c = ops.create
    B = {}
    B["flat-no-subdirs"] = (ops.build(ctx, FLAT, [c("", ["xxh64"])], expect=[0]), True)
    B["subdirs"] = (ops.build(ctx, T, [c("", ["xxh64"])], expect=[0]), True)
    B["subdirs-2formats-1gen"] = (ops.build(ctx, T, [c("", ["md5", "c4"])], expect=[0]), True)
    B["two-gens-different-formats"] = (ops.build(ctx, T, [c("", ["md5"]), c("", ["xxh64"])], expect=[0, 0]), True)
    B["nested-same-format"] = (ops.build(ctx, T, [c("d", ["xxh64"]), c("", ["xxh64"])], expect=[0, 0]), True)
    B["nested-different-format"] = (ops.build(ctx, T, [c("d", ["md5"]), c("", ["xxh64"])], expect=[0, 0]), True)
    B["nested2-different-formats"] = (ops.build(ctx, T, [c("d/e", ["sha1"]), c("d", ["md5"]), c("", ["xxh64"])],
                                                expect=[0, 0, 0]), True)
    # a nested history with an ignore pattern of its own: it must not reach beyond that history
    # (no entry inside d matches it, so d's own hashes do not depend on which run - its own or the parent's - wrote them)
    t2 = dict(T); t2["keep.log"] = b"sealed by the root history"
    B["nested-own-pattern"] = (ops.build(ctx, t2, [c("d", ["xxh64"], i=["*.log"]), c("", ["xxh64"])], expect=[0, 0]), True)
    # order-dependent patterns recorded in the history (verify -dh reads them from there)
    t3 = dict(T); t3["keep.txt"] = b"re-included"; t3["other.txt"] = b"excluded"
    B["negated-pattern"] = (ops.build(ctx, t3, [c("", ["xxh64"], i=["*.txt", "!keep.txt", "!d/c.txt"])], expect=[0]), True)
    # a pattern that is bound to one place (anchored at the root) while entries of the same name exist elsewhere
    t4 = dict(T); t4["notes.txt"] = b"excluded: the one at the root"; t4["d/notes.txt"] = b"sealed"; t4["d/e/notes.txt"] = b"sealed as well"
    t4["d/skip"] = DIR; t4["d/skip/x.txt"] = b"excluded folder d/skip"; t4["emp/skip"] = DIR; t4["emp/skip/y.txt"] = b"sealed: another folder called skip"
    B["anchored-pattern"] = (ops.build(ctx, t4, [c("", ["xxh64"], i=["/notes.txt", "d/skip/"])], expect=[0]), True)
    # symbolic links to files are entries of the tree like any other (hashed through the link, bound under the link's own name)
    t5 = dict(T); t5["lnk to c"] = T["d/c.txt"]; t5["d/e/back link"] = T["d/c.txt"]
    sub.LINKS = dict(LINKS)
    try:
        B["with-links"] = (ops.build(ctx, t5, [c("", ["xxh64"])], expect=[0]), True)
    finally:
        sub.LINKS = {}
    B["n-generation-after-normal"] = (ops.build(ctx, T, [c("", ["xxh64"]), c("", ["xxh64"], n=True)], expect=[0, 0]), True)
    B["n-generation-before-normal"] = (ops.build(ctx, T, [c("", ["xxh64"], n=True), c("", ["xxh64"])], expect=[0, 0]), True)
    B["nested-under-n-only-root"] = (ops.build(ctx, T, [c("d", ["md5"]), c("", ["xxh64"], n=True)], expect=[0, 0]), False)
    B["nested-under-sf-only-root"] = (ops.build(ctx, T, [c("d", ["md5"]), c("", ["xxh64"], sf=["a.txt"])], expect=[0, 0]), False)
    B["n-generation-only"] = (ops.build(ctx, T, [c("", ["xxh64"], n=True)], expect=[0]), False)
    B["empty-folder"] = (ops.build(ctx, {}, [c("", ["xxh64"])], expect=[0]), True)
    B["three-gens"] = (ops.build(ctx, T, [c("", ["md5"]), c("", ["sha1", "c4"]), c("", ["xxh3"])], expect=[0, 0, 0]), True)
    # two generations that differ only in the NAME of an entry of the root folder (equal root content hash, different structure
    # hash): whichever of the two names the tree has now, one of the two recorded roots does not describe it
    B["root-entry-renamed-between-gens"] = (ops.build(ctx, T, [c("", ["xxh64"]), ["mv", "a.txt", "renamed-a.txt"],
                                                               c("", ["xxh64"], dr=True)], expect=[0, 0]), True)
    B["sf-generation-after-normal"] = (ops.build(ctx, T, [c("", ["xxh64"]), c("", ["xxh64"], sf=["a.txt"])], expect=[0, 0]), True)
    if tier == "thorough":
        B["all-six-formats"] = (ops.build(ctx, T, [c("", ref.FORMATS_CLI)], expect=[0]), True)
        t3 = dict(T); t3["d/e/g"] = DIR; t3["d/e/g/h.txt"] = b"content of h"
        B["nested3"] = (ops.build(ctx, t3, [c("d/e/g", ["c4"]), c("d/e", ["sha1"]), c("d", ["md5"]), c("", ["xxh64"])],
                                  expect=[0, 0, 0, 0]), True)
    return B


LINKS = {"lnk to c": "d/c.txt", "d/e/back link": "../c.txt"}


def mutations(tree):
    med = ref.media(tree)
    out = []
    for p, cont in sorted(med.items()):
        par = ref.parent(p)
        new = (par + "/" if par else "") + "renamed-" + p.split("/")[-1]
        out.append((f"rename {p}", ["mv", p, new]))
        # renames that only change the letter case, or only the Unicode normalisation form, of the name
        n = p.split("/")[-1]
        for variant, tag in ((n.swapcase(), "case"), (unicodedata.normalize("NFD", n), "nfd"), (unicodedata.normalize("NFC", n), "nfc")):
            if variant != n:
                out.append((f"rename-{tag} {p}", ["mv", p, (par + "/" if par else "") + variant]))
        if cont is DIR:
            out.append((f"add {p}/new.bin", ["write", p + "/new.bin", b"new file"]))
            out.append((f"mkdir {p}/newdir", ["mkdir", p + "/newdir"]))
            if not any(q.startswith(p + "/") for q in med):
                out.append((f"rmdir {p}", ["rm", p]))
        else:
            if not (p in LINKS and "lnk to c" in med):   # (a link has no content of its own to change; changing its target is the change of d/c.txt)
                out.append((f"change {p}", ["write", p, cont + b"!"]))
            out.append((f"remove {p}", ["rm", p]))
    if "keep.log" in med:
        out.append(("add new.log", ["write", "new.log", b"new file whose name matches the nested history's pattern"]))
        out.append(("add emp/new.log", ["write", "emp/new.log", b"the same one level down"]))
    out.append(("add new.bin", ["write", "new.bin", b"new file in root"]))
    out.append(("mkdir newdir", ["mkdir", "newdir"]))
    return out


def depth_class(muts):
    ds = set()
    for label, e in muts:
        p = e[1]
        ds.add("root" if "/" not in p else "deeper")
    return "+".join(sorted(ds)) or "none"


def eval_case(ctx, case):
    t = case["base"]
    for label, e in case["muts"]:
        t = ops.edit(t, e)
    hopt = case.get("h")
    sub.LINKS = dict(LINKS) if case["name"] == "with-links" else {}
    try:
        res, post = ops.run_cmd(ctx, t, ["verify", {"root": "", "dh": True, "h": hopt, "spell": case.get("spell")}], sub.NOW0 + 500)
    finally:
        sub.LINKS = {}
    v = []
    kind_of_base = ("n-generation" if case["name"].startswith("n-generation") else "nested" if case["name"].startswith("nested")
                    else "flat-no-subdirs" if case["name"] == "flat-no-subdirs" else "plain")
    sig = {"base": kind_of_base, "mutated": bool(case["muts"]), "where": depth_class(case["muts"]), "h": hopt is not None}
    if case.get("spell"):
        sig["root_spelled"] = case["spell"]
    desc = f"{case['name']} + {[m[0] for m in case['muts']]} -> verify -dh" + (f" -h {hopt}" if hopt else "") + \
        (f" (root spelled '{case['spell']}')" if case.get("spell") else "")
    if res.exc is not None or res.exit not in (0, 12):
        v.append(Viol(PROP, "abort", dict(sig, exc=(res.exc or "").split(":")[0], where_tb=res.tb[-1][1] if res.tb else None),
                      f"{desc}: exit {res.exit} {res.exc} {res.tb}\n{res.err[-300:]}", case))
        return v
    if not case["muts"]:
        if res.exit != 0:
            v.append(Viol(PROP, "false-alarm", sig, f"{desc}: exit {res.exit} on the unchanged tree\n{res.err[-600:]}", case))
    elif case.get("pats") and visible(case["base"], case["pats"]) == visible(t, case["pats"]):
        # the change touches only entries that the recorded patterns exclude: nothing the sealed hashes cover has changed
        if res.exit != 0:
            v.append(Viol(PROP, "false-alarm", sig, f"{desc}: exit {res.exit}, the change is confined to excluded entries\n{res.err[-600:]}", case))
    elif case["has_dirhashes"] and res.exit != 12:
        v.append(Viol(PROP, "change-not-detected", sig, f"{desc}: exit {res.exit}, expected 12\n{res.err[-400:]}", case))
    return v


def visible(tree, pats):
    return {p: c for p, c in ref.media(tree).items() if not ref.ignored(pats, p, c is DIR)}


PATS = {"negated-pattern": ["*.txt", "!keep.txt", "!d/c.txt"], "anchored-pattern": ["/notes.txt", "d/skip/"]}


def work(ctx, case):
    return eval_case(ctx, case)


def recorded_root_formats(tree):
    fs = []
    for g in ref.generations(tree, ""):
        m = ref.read_manifest(g["bytes"])
        for h in (m["roothash"] or {}).get("content", []):
            if h["format"] not in fs:
                fs.append(h["format"])
    return fs


def main(tier, seed):
    eng = engine.Engine(PROP, tier, seed, "model_checking")
    engine.selftest(eng)
    B = engine.scenarios(eng, lambda: bases(eng.local_ctx(), tier))
    B = {k: v for k, v in B.items() if v[0] is not None}
    if not B:
        raise engine.HarnessError("no base state could be sealed: " + str(eng.notes.get("skipped_scenarios")))
    cases, states = [], set()
    for name, (tree, has) in B.items():
        singles = mutations(tree)
        if name == "with-links":   # (a link whose target is gone is another matter: the tool cannot hash it)
            singles = [m for m in singles if not (m[1][0] in ("mv", "rm") and ("d/c.txt" == m[1][1] or "d/c.txt".startswith(m[1][1] + "/")))]
        if name == "root-entry-renamed-between-gens":   # the rename back: the tree is the one of generation 1 again
            singles = singles + [("rename renamed-a.txt back to a.txt", ["mv", "renamed-a.txt", "a.txt"])]
        sets = [[]] + [[m] for m in singles]
        if tier == "thorough":
            sets += [list(c) for c in itertools.combinations(singles, 2)]
        # an explicit -h FORMAT: every recorded format (quick: on the bases whose root history recorded two formats)
        hopts = [None] + (recorded_root_formats(tree) if tier == "thorough" or name in ("subdirs-2formats-1gen", "two-gens-different-formats")
                          else [])
        if name == "root-entry-renamed-between-gens":
            # the untouched tree is not judged here: it differs from the root recorded by generation 1 and the tool, which compares
            # the root with every generation, answers 12 - the check's "exit 0 when nothing changed" rule speaks about one sealed state
            sets = sets[1:]
        for ms in sets:
            t = tree
            try:
                for label, e in ms:
                    if e[0] in ("mv", "rm") and e[1] not in t:
                        raise KeyError
                    if e[0] in ("write", "mkdir") and ref.parent(e[1]) and ref.parent(e[1]) not in t:
                        raise KeyError
                    t = ops.edit(t, e)
            except KeyError:
                continue
            if ms and ref.media(t) == ref.media(tree):
                continue
            states.add(engine.canon(t))
            for h in hopts:
                if h is not None and len(ms) > 1:
                    continue
                cases.append({"name": name, "base": tree, "muts": ms, "has_dirhashes": has, "pats": PATS.get(name), "h": h})
                if h is None and len(ms) <= 1:   # the root folder as a user may spell it: trailing separator, /., '.' from inside, ./name
                    for sp in ("slash", "slashdot", "dot", "rel", "symlink", "dotdot", "slashslash"):
                        cases.append({"name": name, "base": tree, "muts": ms, "has_dirhashes": has, "pats": PATS.get(name), "h": h, "spell": sp})
    res = eng.pmap(work, cases)
    for case, vs in zip(cases, res):
        eng.add_viols(vs)
        eng.outcome(("viol:" + vs[0].kind if vs else "ok", len(case["muts"]), case["h"] is not None))
    for c in cases[:: max(1, len(cases) // 6)]:
        eng.sample({"base": c["name"], "mutations": [m[0] for m in c["muts"]], "h": c["h"]})
    cov = {"states": len(states), "transitions": len(cases), "traces_validated_against_impl": len(cases), "exhaustive": True,
           "bases": sorted(B),
           "rule": "sealed bases (flat folder without sub-directories, sub-directories, two formats in one generation, two "
                   "generations with different single formats, nested histories with same / different formats at 1-2 (3) levels, "
                   "-n generations before / after / only, empty folder) x every single mutation (content change, rename, add, "
                   "remove, mkdir, rmdir at every depth incl. directly in the root; thorough: all pairs and -h <recorded format>) "
                   "-> verify -dh must exit 0 unchanged / 12 mutated and never abort"}
    return eng.finish(cov, eval_case)


def replay(path):
    return engine.replay_file(path, eval_case, PROP)
