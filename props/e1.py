"""
Generic E1 transition function: alphabets produce the enabled ops of a state, oracles judge every
executed command by a relation over (pre-state, op, post-state, result, observations).

  meta["alpha"]    module name under props/ providing  enabled(tree, meta) -> [(op, post_meta, cont)]
  meta["oracles"]  module names under props/ providing judge(pre, op, post, res, obs, meta) -> [Viol]
                   (optionally classify(pre, op, post, res) -> hashable for the outcome statistics)
  meta["observe"]  also take metadata snapshots + audit events around the command (C14, C12)
"""
import importlib
from mc.engine import Viol

from mc import ops, sub, ref

_mods = {}


def mod(name):
    m = _mods.get(name)
    if m is None:
        m = _mods[name] = importlib.import_module("props." + name)
    return m


def run_and_judge(ctx, pre, op, now, meta):
    observe = bool(meta.get("observe"))
    meta = dict(meta, _now=now)
    r = ops.run_cmd(ctx, pre, op, now, observe=observe, tz=meta.get("tz"))
    res, post = r[0], r[1]
    obs = r[2] if observe else {}
    obs["root"] = ctx.root
    viols = []
    # whatever a command wrote into an ascmhl folder must be readable by the independent XML reader: a file that is not even
    # well-formed is a violation of the property under test (its oracle could only stumble over it), not a harness error
    broken = []
    for p, c in post.items():
        if c is not None and pre.get(p) != c and ref.is_in_ascmhl(p) and (p.endswith(".mhl") or p.endswith("ascmhl_chain.xml")):
            try:
                (ref.read_manifest if p.endswith(".mhl") else ref.read_chain)(c)
            except Exception as e:
                broken.append((p, f"{type(e).__name__}: {e}"[:160]))
    if broken:
        for o in meta["oracles"]:
            v = Viol(mod(o).PROP, "written-file-unreadable", {"cmd": op[0], "file": "chain" if broken[0][0].endswith(".xml") else "manifest"},
                     f"{ops.label(op)} (exit {res.exit}) wrote {broken[0][0]} which the XML reader rejects: {broken[0][1]}")
            v.case = {"pre": pre, "op": op, "now": now, "meta": {k: meta[k] for k in meta if not k.startswith("_")}, "oracle": o}
            viols.append(v)
        return res, post, viols
    for o in meta["oracles"]:
        vs = mod(o).judge(pre, op, post, res, obs, meta)
        for v in vs:
            v.case = {"pre": pre, "op": op, "now": now, "meta": {k: meta[k] for k in meta if not k.startswith("_")},
                      "oracle": o}
        viols += vs
    return res, post, viols


def expand(ctx, item):
    tree, meta, depth = item
    out = []
    for op, m2, cont in mod(meta["alpha"]).enabled(tree, meta):
        if ops.is_edit(op):
            out.append((op, ops.edit(tree, op) if cont else None, m2, [], "edit:" + op[0]))
            continue
        now = meta.get("t0", sub.NOW0) + (0 if meta.get("frozen") else 10 * meta.get("clock", depth))
        if meta.get("spell") and isinstance(op[1], dict) and "root" in op[1] and not op[1].get("slash"):
            op = [op[0], dict(op[1], spell=meta["spell"])]   # the root folder as a user may spell it (see ops.root_arg)
        res, post, viols = run_and_judge(ctx, tree, op, now, meta)
        cls = (op[0], res.exit)
        o0 = mod(meta["oracles"][0])
        if hasattr(o0, "classify"):
            cls = cls + (o0.classify(tree, op, post, res),)
        if m2 is not None:
            m2 = dict(m2, clock=meta.get("clock", depth) + 1)
        out.append((op, post if cont else None, m2, viols, cls))
    return out


def eval_case(ctx, case):
    meta = dict(case["meta"], oracles=[case["oracle"]])
    res, post, viols = run_and_judge(ctx, case["pre"], case["op"], case["now"], meta)
    return viols
