"""C13 - results do not depend on where the tree is mounted or how the OS lists it (engine E4b)"""
import itertools
import os

from mc import engine, ref, ops, sub
from mc.engine import Viol

PROP = "C13"
DIR = None
LAYOUTS = {
    "flat": ({"a.txt": b"A", "b.txt": b"B", "c c.txt": b"C", "d": DIR, "d/x.bin": b"X", "d/y.bin": b"Y"}, []),
    "nested-siblings": ({"r.txt": b"R", "A": DIR, "A/a1.txt": b"A1", "A/a2.txt": b"A2", "AB": DIR, "AB/b1.txt": b"B1",
                         "AB/b2.txt": b"B2"}, ["A", "AB"]),
    # sibling nested roots whose names differ only in case (two different folders on a case-sensitive file system) and a plain folder
    "nested-case-siblings": ({"r.txt": b"R", "Reel": DIR, "Reel/a1.txt": b"A1", "reel": DIR, "reel/b1.txt": b"B1"}, ["Reel", "reel"]),
}
LAYOUTS_X = {
    "nested-three": ({"r.txt": b"R", "A": DIR, "A/a.txt": b"A1", "AB": DIR, "AB/b.txt": b"B1", "B": DIR, "B/c.txt": b"C1",
                      "B/C": DIR, "B/C/d.txt": b"D"}, ["B/C", "A", "AB", "B"]),
    "flat4": ({"a.txt": b"A", "b.txt": b"B", "c.txt": b"C", "e.txt": b"E", "d": DIR, "d/w.bin": b"W", "d/x.bin": b"X",
               "d/y.bin": b"Y", "d/z.bin": b"Z"}, []),
}
# (names that are special to glob / regular expressions / format strings must be as harmless as any other)
DEEP = "/".join("level %02d of a deep project structure" % i for i in range(1, 9))   # > 255 bytes of path, every name short
ANCESTORS = ["plain", "ascmhl", "x.tmp", ".DS_Store", "with space", "Shoot [Day 1]", "what? *(copy) {0} %s", "e\u0301 \u00fc", DEEP]
INVOCATIONS = ["absolute", "trailing-slash", "relative-from-parent", "dot-from-inside", "through-symlinked-parent",
               "through-symlinked-parent, -sf relative to the working directory", "link-dotdot"]


def seal(ctx, layout, ancestor, invocation, order, pats=("*.tmp",)):
    """run the scenario at base/<ancestor>/root; returns (dict of ascmhl entries, exits, final tree)"""
    tree, nested = layout
    loc = os.path.join(ctx.base, "loc", ancestor)
    sub.rm(os.path.join(ctx.base, "loc"))
    if os.path.islink(os.path.join(ctx.base, "mnt")):
        os.remove(os.path.join(ctx.base, "mnt"))
    sub.rm(os.path.join(ctx.base, "mnt2"))
    os.makedirs(loc)
    root = os.path.join(loc, "root")
    sub.materialise(root, tree)
    table = order or {}

    def perm(d, names):
        rel = os.path.relpath(os.path.abspath(d), loc)
        p = table.get(rel)
        if p is None:
            return names
        return [n for n in p if n in names] + [n for n in names if n not in p]
    sub.ORDER["perm"] = perm if order else None
    # for the subprocess runner the same table, keyed by path suffix
    sp_order = {k: list(v) for k, v in table.items()} if order else None
    exits = []
    now = sub.NOW0
    try:
        first_file = sorted(p for p, c in tree.items() if c is not DIR)[0]
        # every nested root, then the top twice (the second generation of a history that already has an ascmhl folder and
        # child references), then a -sf generation
        # ... and a -sf generation that names a FOLDER (its own traversal)
        first_dir = sorted(p for p, c in tree.items() if c is DIR and p not in nested)[:1]
        # ... and a generation without directory hashes (-n)
        steps = [(r, None, []) for r in nested] + [("", None, []), ("", None, []), ("", first_file, [])] + [("", d, []) for d in first_dir] + \
                [("", None, ["-n"])]
        for i, (r, sf, extra) in enumerate(steps):
            target = os.path.join(root, r) if r else root
            args, cwd = [target], None
            if invocation.startswith("through-symlinked-parent"):
                # <base>/mnt is a symbolic link to the folder that holds the root: every path of the command line goes through it
                lnk = os.path.join(ctx.base, "mnt")
                if not os.path.islink(lnk):
                    os.symlink(loc, lnk)
                target = os.path.join(lnk, os.path.relpath(target, loc))
                args = [target]
            if invocation == "link-dotdot":
                # <base>/mnt2/cur is a link to the root folder; cur/../root is the root folder again (the OS follows the link first)
                l2 = os.path.join(ctx.base, "mnt2")
                if not os.path.islink(os.path.join(l2, "cur")):
                    sub.rm(l2)
                    os.makedirs(l2)
                    os.symlink(root, os.path.join(l2, "cur"))
                target = os.path.join(l2, "cur", "..", os.path.relpath(target, loc))
                args = [target]
            if invocation == "trailing-slash":
                args = [target + "/"]
            elif invocation == "relative-from-parent":
                args, cwd = [os.path.basename(target)], os.path.dirname(target)
            elif invocation == "dot-from-inside":
                args, cwd = ["."], target
            args += ["-h", "md5"] + extra
            if sf is not None:
                if invocation.endswith("working directory"):
                    cwd = target   # the user stands in the root folder (reached through the link) and names the entry relatively
                args += ["-sf", sf if invocation.endswith("working directory") else
                         os.path.join(lnk, "root", sf) if invocation == "through-symlinked-parent" else
                         os.path.join(root, sf) if invocation in ("absolute", "trailing-slash", "link-dotdot") else
                         (os.path.join(os.path.basename(target), sf) if invocation == "relative-from-parent" else sf)]
            for p in pats:
                args += ["-i", p]
            res = ctx.run("create", args, now=now + 10 * i, cwd=cwd, order=sp_order)
            exits.append(res.exit if res.exc is None else res.exc)
            sub.reset_mtimes(root)
    finally:
        sub.ORDER["perm"] = None
    post = sub.readback(root)
    return {p: c for p, c in post.items() if ref.is_in_ascmhl(p)}, exits, post


def eval_case(ctx, case):
    layout = case["layout_def"]
    v = []
    anc = case["ancestor"]
    sig = {"ancestor": "plain" if anc == "plain" else ("space" if anc == "with space" else "deep" if anc == DEEP else "special-characters" if anc not in
                       ("ascmhl", "x.tmp", ".DS_Store") else "matches-ignore-pattern"),
           "invocation": case["invocation"], "permuted": bool(case.get("order")), "nested": bool(case["layout_def"][1])}
    got, exits, post = seal(ctx, layout, case["ancestor"], case["invocation"], case.get("order"))
    base = case["baseline"]
    desc = f"{case['layout']} below '{case['ancestor']}', {case['invocation']}, listing {case.get('order') or 'sorted'}"
    if exits != case["base_exits"]:
        v.append(Viol(PROP, "exit-differs", sig, f"{desc}: exit codes {exits}, baseline {case['base_exits']}", case))
    if got != base:
        diff = sorted(p for p in set(got) | set(base) if got.get(p, 0) != base.get(p, 0))
        what = "missing" if any(p not in got for p in diff) else ("extra" if any(p not in base for p in diff) else "bytes")
        first = diff[0]
        detail = ""
        if first in got and first in base and got[first] is not DIR:
            a, b = base[first].decode(errors="replace").splitlines(), got[first].decode(errors="replace").splitlines()
            dl = [(x, y) for x, y in itertools.zip_longest(a, b) if x != y][:3]
            detail = f"; first differing lines of {first}: {dl}"
            n_rec = (len([l for l in a if "<path" in l]), len([l for l in b if "<path" in l]))
            what = "records" if n_rec[0] != n_rec[1] else ("reference-order" if sorted(a) == sorted(b) else what)
        v.append(Viol(PROP, "manifests-differ", dict(sig, what=what), f"{desc}: ascmhl folders differ from the baseline in {diff[:4]}{detail}", case))
    # a sealed tree copied to this location verifies
    if case.get("verify_copy"):
        loc = os.path.join(ctx.base, "loc", case["ancestor"])
        root = os.path.join(loc, "root")
        sub.rm(os.path.join(ctx.base, "loc"))
        os.makedirs(loc)
        sub.materialise(root, case["baseline_tree"])
        for cmd, extra in (("verify", []), ("diff", []), ("verify", ["-dh"])):
            args, cwd = [root], None
            if case["invocation"] == "trailing-slash":
                args = [root + "/"]
            elif case["invocation"] == "relative-from-parent":
                args, cwd = ["root"], loc
            elif case["invocation"] == "dot-from-inside":
                args, cwd = ["."], root
            res = ctx.run(cmd, args + extra, now=sub.NOW0 + 500, cwd=cwd)
            if res.exit != 0 or res.exc:
                v.append(Viol(PROP, "relocated-copy-rejected", dict(sig, cmd=cmd + "".join(extra), exit=res.exit),
                              f"{desc}: {cmd} {' '.join(extra)} on the relocated sealed tree exits {res.exit} {res.exc or ''}\n{res.err[-300:]}", case))
    sub.rm(os.path.join(ctx.base, "loc"))
    return v


def work(ctx, case):
    return eval_case(ctx, case)


def dir_entries(tree, nested):
    """{dir path relative to the location ('root', 'root/A', ..): sorted entry names incl. the ascmhl folder of history roots}"""
    out = {}
    dirs = [""] + [p for p, c in tree.items() if c is DIR]
    for d in dirs:
        names = sorted(p.split("/")[-1] for p in tree if ref.parent(p) == d and p != d)
        if d == "" or d in nested:
            names = sorted(names + ["ascmhl"])
        out["root" + ("/" + d if d else "")] = names
    return out


def orders(tree, nested, maxn):
    """every combination of orderings (by name) of every directory with <= maxn entries (others stay sorted)"""
    ents = dir_entries(tree, nested)
    keys = sorted(k for k, n in ents.items() if 2 <= len(n) <= maxn)
    spaces = [list(itertools.permutations(ents[k])) for k in keys]
    for combo in itertools.product(*spaces):
        if all(list(c) == sorted(c) for c in combo):
            continue
        yield {k: list(c) for k, c in zip(keys, combo)}


def main(tier, seed):
    eng = engine.Engine(PROP, tier, seed, "model_checking")
    engine.selftest(eng)
    ctx = eng.local_ctx()
    layouts = dict(LAYOUTS)
    if tier == "thorough":
        layouts.update(LAYOUTS_X)
    cases = []
    for name, layout in layouts.items():
        base, bex, btree = seal(ctx, layout, "plain", "absolute", None)
        common = {"layout": name, "layout_def": layout, "baseline": base, "base_exits": bex, "baseline_tree": btree}
        for anc in ANCESTORS:
            for inv in INVOCATIONS:
                cases.append(dict(common, ancestor=anc, invocation=inv, verify_copy=True))
        maxn = 4 if name in ("flat", "nested-siblings", "nested-case-siblings") else 3
        n = 0
        all_orders = list(orders(layout[0], layout[1], maxn))
        # the ascmhl folders themselves (manifests + chain file) listed in every order as well
        asc = {}
        for p in btree:
            if p.split("/")[-1] == "ascmhl" and btree[p] is DIR:
                asc["root/" + p] = sorted(q.split("/")[-1] for q in btree if ref.parent(q) == p)
        keys = sorted(k for k, v in asc.items() if len(v) <= 5)
        import random
        rng = random.Random(7)
        for _ in range(40 if tier == "quick" else 200):
            od = {k: rng.sample(asc[k], len(asc[k])) for k in keys}
            od.update(rng.choice(all_orders) if all_orders else {})
            all_orders.append(od)
        for od in all_orders:
            # the ascmhl folder is not present during the first listing of a directory: give both index layouts
            cases.append(dict(common, ancestor="plain", invocation="absolute", order=od))
            n += 1
            if n % 7 == 0:
                cases.append(dict(common, ancestor="with space", invocation="dot-from-inside", order=od))
    res = eng.pmap(work, cases)
    for case, vs in zip(cases, res):
        eng.add_viols(vs)
        eng.outcome((case["layout"], "order" if case.get("order") else "location", "viol" if vs else "ok"))
    for c in cases[:: max(1, len(cases) // 6)]:
        eng.sample({"layout": c["layout"], "ancestor": c["ancestor"], "invocation": c["invocation"], "listing": c.get("order") or "sorted"})
    ncmd = sum(len(c["layout_def"][1]) + 5 + (3 if c.get("verify_copy") else 0) for c in cases)
    cov = {"states": len(cases), "transitions": ncmd, "traces_validated_against_impl": ncmd, "exhaustive": True,
           "rule": "layouts {flat, nested siblings A / AB (thorough: + three nested roots incl. a chain, wider flat)} sealed with the "
                   "same names, contents, mtimes, virtual clock and -i *.tmp at <scratch>/<ancestor>/root for ancestor in {plain, "
                   "ascmhl, x.tmp (matches the pattern), .DS_Store, 'with space', 'Shoot [Day 1]', 'what? *(copy) {0} %s', a decomposed name} x invocation {absolute, trailing slash, relative "
                   "from the parent, '.' from inside}; and under EVERY combination of permutations of the directory listings "
                   "(os.listdir / os.scandir seam) of all directories with <=4 entries, plus a fixed set of 40 (thorough 200) listings that also "
                   "shuffle the entries of every ascmhl folder (enumerated from a seeded generator: an addition, not the deciding part); "
                   "each scenario seals the nested roots, then the top twice, then a -sf generation for a file and one for a folder, then a -n generation; oracle: the ascmhl folders are byte-identical "
                   "to the baseline (plain location, sorted listing); the baseline's sealed tree copied to each location verifies "
                   "(verify, diff, verify -dh exit 0)"}
    return eng.finish(cov, eval_case)


def replay(path):
    return engine.replay_file(path, eval_case, PROP)
