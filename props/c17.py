"""C17 - renamed files keep their identity when rename detection is on (engine E1: sealed base x rename sets)"""
import itertools

from mc import engine, ref, ops, sub
from mc.engine import Viol

PROP = "C17"
DIR = None
FLAT = {"p": DIR, "q": DIR, "p/a.txt": b"content of a", "p/b.txt": b"content of b (distinct)", "q/c.txt": b"content of c, distinct too"}
FLAT4 = dict(FLAT, **{"q/d.txt": b"fourth distinct content"})
NEST = {"p": DIR, "p/s": DIR, "q": DIR, "p/a.txt": b"content of a", "p/s/b.txt": b"content of b (distinct)",
        "q/c.txt": b"content of c, distinct too"}
KINDS = ("stay", "rename", "move", "move+rename")
KINDS_CASE = KINDS + ("case",)   # a rename that only changes the letter case of the name (another name on this file system)


def target(path, kind, tree, hist_dirs):
    d, n = ref.parent(path), path.split("/")[-1]
    others = [x for x in hist_dirs if x != d]
    nn = n.replace(".txt", "-r.txt")
    if kind == "stay":
        return path
    if kind == "rename":
        return d + "/" + nn
    if kind == "case":
        return d + "/" + n.upper()
    if kind == "newdir":
        return "fresh dir/" + n
    if kind == "toroot":
        return n
    if kind == "move":
        return others[0] + "/" + n
    return others[0] + "/" + nn


def apply_renames(tree, mapping):
    t = dict(tree)
    for old, new in mapping.items():
        if old != new:
            ops.add_parents(t, new)
            t[new] = t.pop(old)
    return t


def run(ctx, tree, op, now):
    return ops.run_cmd(ctx, tree, op, now)


def missing_block(text):
    """paths listed after an 'ERROR: n missing file(s):' line"""
    out, on = [], False
    for ln in text.splitlines():
        if "missing file(s)" in ln:
            on = True
            continue
        if on:
            if ln.startswith("  "):
                out.append(ln.strip())
            else:
                on = False
    return out


def eval_folder_case(ctx, case):
    """a whole folder (plain, or the root of a nested history) renamed or moved: every file below it moved with it"""
    base, fmts = case["base"], case["fmts"]
    v = []
    stats = {"cmds": 0}
    sig = {"layout": case["layout"], "folder": True, "nested_root": bool(case.get("nested_root"))}

    def V(kind, detail, **extra):
        v.append(Viol(PROP, kind, dict(sig, **extra), detail, case))
    t = base
    for src, dst in case["mv"]:
        t = ops.edit(t, ["mv", src, dst])
    desc = f"{case['layout']}: folder(s) renamed {case['mv']}"
    now = sub.NOW0 + 100
    r0, _ = run(ctx, t, ops.create("", fmts), now); stats["cmds"] += 1
    if r0.exit != 10:
        V("plain-create-not-10", f"{desc}: create without -dr exits {r0.exit}, expected 10", exit=r0.exit)
    r1, post = run(ctx, t, ops.create("", fmts, dr=True), now + 10); stats["cmds"] += 1
    if r1.exc is not None or r1.exit != 0:
        V("dr-create-fails", f"{desc}: create -dr exit {r1.exit} {r1.exc}\n{r1.err[-400:]}", exit=r1.exit, exc=(r1.exc or "").split(":")[0] or None)
        return v, stats
    mb = missing_block(r1.err)
    if mb:
        V("dr-reports-missing", f"{desc}: create -dr reports missing {mb}")
    for fo in (["verify", {"root": ""}], ["diff", {"root": ""}], ops.create("", fmts)):
        r2, _ = run(ctx, post, fo, now + 20); stats["cmds"] += 1
        if r2.exit != 0 or r2.exc:
            V("followup-rejects", f"{desc}: after create -dr, {fo[0]} exits {r2.exit} {r2.exc or ''}\n{r2.err[-300:]}", cmd=fo[0], exit=r2.exit)
    # a file below the renamed folder altered afterwards still fails verification
    moved = sorted(p for p, c in ref.media(post).items() if c is not DIR and any(p.startswith(d + "/") for _, d in case["mv"]))
    for n in moved[:2]:
        r3, _ = run(ctx, ops.edit(post, ["write", n, post[n] + b" ALTERED"]), ["verify", {"root": ""}], now + 30); stats["cmds"] += 1
        if r3.exit != 11:
            V("altered-renamed-file-passes", f"{desc}: {n} altered after the rename generation: verify exits {r3.exit}", exit=r3.exit)
    return v, stats


def eval_case(ctx, case):
    if "mv" in case:
        return eval_folder_case(ctx, case)
    base, mapping, fmts = case["base"], case["mapping"], case["fmts"]
    steps = case.get("steps") or [mapping]
    v = []
    sig = {"layout": case["layout"], "steps": len(steps), "extra_new": bool(case.get("extra"))}
    if case.get("extra_dir"):
        sig["extra_empty_folder"] = True
    if case.get("spell"):
        sig["root_spelled"] = case["spell"]
    if case.get("late"):
        sig["late_dr"] = True
    stats = {"cmds": 0}

    def V(kind, detail, **extra):
        v.append(Viol(PROP, kind, dict(sig, **extra), detail, case))

    cur = base
    now = sub.NOW0 + 100
    total = {p: p for p, c in ref.media(base).items() if c is not DIR}   # original -> current path
    for si, mp in enumerate(steps):
        renamed = {o: n for o, n in mp.items() if o != n}
        t = apply_renames(cur, mp)
        for d in case.get("rmdirs", []) if si == 0 else []:   # a folder that lost all its files is removed as well
            t = ops.edit(t, ["rm", d])
        if case.get("extra") and si == 0:
            t = ops.edit(t, ["write", "q/unrelated-new.bin", b"unrelated!!!"])   # same size as p/a.txt, other content
        if case.get("extra_dir") and si == 0:
            # a new EMPTY FOLDER whose path sorts before every file: its content hash is the hash of the empty input, as is
            # that of a renamed 0-byte file - the folder must not take the file's former path
            t = ops.edit(t, ["mkdir", "a new empty folder"])
        desc = f"{case['layout']} step {si + 1} renames {renamed}"
        # (6) without -dr: missing plus new
        if si == 0 and renamed:
            r0, post0 = run(ctx, t, ops.create("", fmts), now); stats["cmds"] += 1
            if r0.exit != 10:
                V("plain-create-not-10", f"{desc}: create without -dr exits {r0.exit}, expected 10", exit=r0.exit)
            else:
                for o in renamed:
                    if o not in r0.err and o not in r0.out:
                        V("plain-create-old-path-not-named", f"{desc}: create without -dr does not name the missing {o}")
            r0v, _ = run(ctx, t, ["verify", {"root": ""}], now); stats["cmds"] += 1
            if r0v.exit == 0:
                V("plain-verify-accepts", f"{desc}: verify accepts the renamed tree without any -dr generation")
        # (3) create -dr  (case 'late': only after a plain create has already recorded the new paths and reported the old ones missing)
        if case.get("late") and si == 0 and renamed and r0.exit == 10:
            t = post0
        r1, post = run(ctx, t, ops.create("", fmts, dr=True, i=case.get("dr_i"), spell=case.get("spell")), now + 10); stats["cmds"] += 1
        if case.get("rmdirs"):
            # the removed folder itself is a recorded entry that is gone: exactly it is reported (exit 10), none of the moved files
            mb = missing_block(r1.err)
            if r1.exc is not None or r1.exit != 10 or sorted(mb) != sorted(case["rmdirs"]):
                V("dr-create-fails", f"{desc}, folder(s) {case['rmdirs']} removed: create -dr exit {r1.exit} {r1.exc}, reports missing {mb}; "
                  f"expected exit 10 naming exactly the removed folder(s)\n{r1.err[-300:]}", exit=r1.exit, exc=(r1.exc or "").split(":")[0] or None)
            return v, stats
        if r1.exc is not None or r1.exit != 0:
            V("dr-create-fails", f"{desc}: create -dr exit {r1.exit} {r1.exc}\n{r1.err[-400:]}", exit=r1.exit,
              exc=(r1.exc or "").split(":")[0] or None)
            return v, stats
        mb = missing_block(r1.err)
        if mb:
            V("dr-reports-missing", f"{desc}: create -dr reports missing {mb}")
        newm = [p for p in post if p.endswith(".mhl") and p not in t]
        recs = {}
        for mpth in newm:
            hr = mpth[:mpth.rfind("ascmhl/")].rstrip("/")
            for rec in ref.read_manifest(post[mpth])["records"]:
                if rec["kind"] == "file":
                    recs[(hr + "/" + rec["path"]) if hr else rec["path"]] = (hr, rec)
        for o, n in mp.items():
            if n not in recs:
                V("dr-new-path-not-recorded", f"{desc}: {n} has no record in the new generation")
                continue
            hr, rec = recs[n]
            want_prev = ref.rel_to(hr, o) if o != n else None
            if rec["previousPath"] != want_prev:
                V("dr-previous-path", f"{desc}: record {n} has previousPath {rec['previousPath']!r}, expected {want_prev!r}",
                  got="none" if rec["previousPath"] is None else "wrong")
        for p, (hr, rec) in recs.items():
            if p not in mp.values() and rec["previousPath"] is not None:
                V("dr-spurious-previous-path", f"{desc}: {p} carries previousPath {rec['previousPath']!r}")
        # (4) follow-ups accept the tree
        for fo in (["verify", {"root": "", "spell": case.get("spell")}], ["diff", {"root": "", "spell": case.get("spell")}],
                   ops.create("", fmts, spell=case.get("spell"))):
            r2, _ = run(ctx, post, fo, now + 20); stats["cmds"] += 1
            if r2.exit != 0 or r2.exc:
                V("followup-rejects", f"{desc}: after create -dr, {fo[0]} exits {r2.exit} {r2.exc or ''}\n{r2.err[-300:]}",
                  cmd=fo[0], exit=r2.exit)
        # (5) an altered renamed file still fails verification
        for o, n in renamed.items():
            t2 = ops.edit(post, ["write", n, post[n] + b" ALTERED"])
            r3, _ = run(ctx, t2, ["verify", {"root": ""}], now + 30); stats["cmds"] += 1
            if r3.exit != 11:
                V("altered-renamed-file-passes", f"{desc}: {n} (formerly {o}) altered after the rename generation: verify exits {r3.exit}",
                  exit=r3.exit)
        # the OLD name of a renamed file is free again: a folder of that name (holding a new file) is an addition like any other,
        # the recorded file is still known under its new name
        if case.get("old_name_reused") and si == 0 and renamed:
            o0 = sorted(renamed)[0]
            t4 = dict(post); t4[o0] = DIR; t4[o0 + "/brand new.bin"] = b"a new file in a folder that took the old name"
            for fo, want in ((["verify", {"root": ""}], 21), (["diff", {"root": ""}], 21), (ops.create("", fmts), 0)):
                r4, _ = run(ctx, t4, fo, now + 40); stats["cmds"] += 1
                if r4.exit != want or r4.exc:
                    V("old-name-reused-as-folder", f"{desc}, then a folder named {o0} appears: {fo[0]} exits {r4.exit} {r4.exc or ''}, expected {want}\n"
                      f"{r4.err[-300:]}", cmd=fo[0], exit=r4.exit)
        cur = post
        now += 100
    return v, stats


def work(ctx, case):
    return eval_case(ctx, case)


def _eval_only(ctx, case):
    return eval_case(ctx, case)[0]


def assignments(tree, hist_dirs, files, kinds_alphabet=KINDS):
    out = []
    for kinds in itertools.product(kinds_alphabet, repeat=len(files)):
        mp = {f: target(f, k, tree, hist_dirs[f]) for f, k in zip(files, kinds)}
        if len(set(mp.values())) == len(mp):
            out.append(mp)
    return out


def main(tier, seed):
    eng = engine.Engine(PROP, tier, seed, "model_checking")
    engine.selftest(eng)
    ctx = eng.local_ctx()
    c = ops.create
    cases = []
    layouts = [("flat", FLAT, [c("", ["xxh64"])], ["xxh64"]), ("flat-2formats", FLAT, [c("", ["md5"]), c("", ["md5", "c4"])], ["md5"]),
               ("flat-other-format", FLAT, [c("", ["md5"])], ["xxh64"]),
               # every file first recorded in another format, the rename generation asks for a fourth one
               ("flat-mixed-formats", FLAT, [c("", ["xxh64"], sf=["p/a.txt"]), c("", ["md5"], sf=["p/b.txt"]), c("", ["sha1"], sf=["q/c.txt"])],
                ["c4"]),
               # an empty file (and a one-byte one) renamed while the rename generation uses another format than the recorded one
               ("small-files-other-format", {"p": DIR, "q": DIR, "p/empty.lock": b"", "q/one.bin": b"1"}, [c("", ["md5"])], ["xxh64"]),
               # ... and with ONE format throughout (the hash of a 0-byte file equals the content hash of an empty folder in it)
               ("small-files-same-format", {"p": DIR, "q": DIR, "p/empty.lock": b"", "q/one.bin": b"1"}, [c("", ["xxh64"])], ["xxh64"])]
    # names that end / begin with a blank (a recorded previous path is the name as it was, blanks included)
    layouts.append(("blank-names", {"p": DIR, "q": DIR, "p/a.txt ": b"content of a", "p/ b.txt": b"content of b (distinct)",
                                    "q/c .txt": b"content of c, distinct too"}, [c("", ["xxh64"])], ["xxh64"]))
    if tier == "thorough":
        layouts.append(("flat4", FLAT4, [c("", ["xxh64"])], ["xxh64"]))
    # a recorded folder that the rename generation excludes (-i given with that run) while a file moves into a new folder and
    # the format changes: folders are compared with folders and files with files
    layouts.append(("excluded-folder-other-format", {"p": DIR, "q": DIR, "p/a.txt": b"content of a", "cache": DIR, "cache/t.db": b"thumbs",
                                                     "q/s.txt": b"stays"}, [c("", ["md5"])], ["xxh64"]))
    for name, tree, prep, fmts in layouts:
        try:
            base = ops.build(ctx, tree, prep, expect=[0] * len(prep))
        except ops.ScenarioFailure as f:
            eng.notes.setdefault("skipped_scenarios", []).append(str(f)[:300])
            continue
        files = sorted(p for p, v in tree.items() if v is not DIR and not p.startswith("cache/"))
        hd = {f: ["p", "q"] for f in files}
        asg = assignments(tree, hd, files, KINDS + ("newdir", "toroot") if name in ("flat-other-format", "excluded-folder-other-format")
                          else (KINDS_CASE if name in ("flat-2formats", "small-files-other-format") else KINDS))
        for mp in asg:
            if name == "excluded-folder-other-format":
                cases.append({"layout": name, "base": base, "mapping": mp, "fmts": fmts, "dr_i": ["cache"]})
                continue
            cases.append({"layout": name, "base": base, "mapping": mp, "fmts": fmts})
            if any(c == b"" for c in base.values() if c is not DIR) and any(o != n for o, n in mp.items()):
                cases.append({"layout": name, "base": base, "mapping": mp, "fmts": fmts, "extra_dir": True})
            if name == "flat" and sum(o != n for o, n in mp.items()) in (1, 2):
                cases.append({"layout": name, "base": base, "mapping": mp, "fmts": fmts, "old_name_reused": True})
            if name == "flat" and sum(o != n for o, n in mp.items()) in (1, 3):   # ... with the root folder spelled in other ways
                for sp in ("slash", "slashslash", "dot", "symlink", "dotdot"):
                    cases.append({"layout": name, "base": base, "mapping": mp, "fmts": fmts, "spell": sp})
            if name == "flat":
                cases.append({"layout": name, "base": base, "mapping": mp, "fmts": fmts, "extra": True})
                if any(o != n for o, n in mp.items()):
                    cases.append({"layout": name, "base": base, "mapping": mp, "fmts": fmts, "late": True})
        # chained renames: one step per generation over 2 (thorough 3) generations
        if name == "flat":
            singles = [mp for mp in asg if sum(o != n for o, n in mp.items()) >= 1]
            for mp in singles if tier == "thorough" else singles[:: max(1, len(singles) // 16)]:
                cur_files = sorted(mp.values())
                hd2 = {f: ["p", "q"] for f in cur_files}
                for f in cur_files:
                    for k in KINDS[1:]:
                        tgt = target(f, k, None, hd2[f])
                        step2 = {g: (tgt if g == f else g) for g in cur_files}
                        if len(set(step2.values())) != len(step2) or tgt in ref.media(base):
                            continue
                        steps = [mp, step2]
                        if tier == "thorough" or (k == "rename" and len(cases) % 5 == 0):
                            f3 = tgt
                            step3 = {g: ((ref.parent(g) + "/third-name.txt") if g == f3 else g) for g in step2.values()}
                            cases.append({"layout": "flat-chain3", "base": base, "mapping": mp, "steps": steps + [step3], "fmts": fmts})
                        cases.append({"layout": "flat-chain2", "base": base, "mapping": mp, "steps": steps, "fmts": fmts})
    # history inside a nested child: renames stay inside one history
    try:
        nbase = ops.build(ctx, NEST, [c("p", ["md5"]), c("", ["xxh64"])], expect=[0, 0])
    except ops.ScenarioFailure as f:
        eng.notes.setdefault("skipped_scenarios", []).append(str(f)[:300])
        nbase = None
    files = sorted(p for p, v in NEST.items() if v is not DIR)
    hd = {"p/a.txt": ["p", "p/s"], "p/s/b.txt": ["p/s", "p"], "q/c.txt": ["q", "q"]}
    for kinds in itertools.product(KINDS, repeat=3) if nbase is not None else []:
        if kinds[2] in ("move", "move+rename"):
            continue
        mp = {f: target(f, k, NEST, hd[f]) for f, k in zip(files, kinds)}
        if len(set(mp.values())) == len(mp):
            cases.append({"layout": "nested-child", "base": nbase, "mapping": mp, "fmts": ["xxh64"]})
    # a file renamed and later renamed BACK to its recorded name (and away again): A -> B, B -> A, A -> B, one step per generation
    try:
        rb = ops.build(ctx, FLAT, [c("", ["xxh64"])], expect=[0])
        ident = {f: f for f in FLAT if FLAT[f] is not DIR}
        away, back = dict(ident, **{"p/a.txt": "p/a-r.txt"}), {("p/a-r.txt" if f == "p/a.txt" else f): f for f in ident}
        cases.append({"layout": "flat-rename-back", "base": rb, "mapping": away, "steps": [away, back], "fmts": ["xxh64"]})
        cases.append({"layout": "flat-rename-back", "base": rb, "mapping": away, "steps": [away, back, away], "fmts": ["xxh64"]})
        moved, moved_back = dict(ident, **{"p/a.txt": "q/a.txt"}), {("q/a.txt" if f == "p/a.txt" else f): f for f in ident}
        cases.append({"layout": "flat-rename-back", "base": rb, "mapping": moved, "steps": [moved, moved_back], "fmts": ["xxh64"]})
        # a folder recorded WITHOUT directory hashes (-n generation) loses all its files to another folder and is removed
        nb = ops.build(ctx, FLAT, [c("", ["xxh64"], n=True)], expect=[0])
        gone = {"p/a.txt": "q/a.txt", "p/b.txt": "q/b-r.txt", "q/c.txt": "q/c.txt"}
        cases.append({"layout": "n-base-folder-vanishes", "base": nb, "mapping": gone, "rmdirs": ["p"], "fmts": ["xxh64"]})
        cases.append({"layout": "n-base-folder-vanishes", "base": rb, "mapping": gone, "rmdirs": ["p"], "fmts": ["xxh64"]})
    except ops.ScenarioFailure as f:
        eng.notes.setdefault("skipped_scenarios", []).append(str(f)[:300])
    # a root history and a nested one that each hold a file with the SAME history-relative path (s/a.txt), renamed in one run
    TW = {"p": DIR, "p/s": DIR, "p/s/a.txt": b"content of a in the nested history", "s": DIR, "s/a.txt": b"content of a in the root history",
          "q": DIR, "q/c.txt": b"content of c, distinct too"}
    try:
        tbase = ops.build(ctx, TW, [c("p", ["xxh64"]), c("", ["xxh64"])], expect=[0, 0])
    except ops.ScenarioFailure as f:
        eng.notes.setdefault("skipped_scenarios", []).append(str(f)[:300])
        tbase = None
    tfiles = sorted(p for p, v in TW.items() if v is not DIR)
    thd = {"p/s/a.txt": ["p/s", "p"], "s/a.txt": ["s", "q"], "q/c.txt": ["q", "s"]}
    for kinds in itertools.product(KINDS, repeat=3) if tbase is not None else []:
        mp = {f: target(f, k, TW, thd[f]) for f, k in zip(tfiles, kinds)}
        if len(set(mp.values())) == len(mp):
            cases.append({"layout": "nested-twins", "base": tbase, "mapping": mp, "fmts": ["xxh64"]})
    # whole folders renamed / moved (same format): plain folders, nested roots one and two levels down
    FT = {"p": DIR, "p/a.txt": b"content of a", "p/b.txt": b"content of b (distinct)", "p/s": DIR, "p/s/d.txt": b"content of d", "q": DIR,
          "q/c.txt": b"content of c, distinct too"}
    NT = {"A": DIR, "A/a.txt": b"a1", "A/AA": DIR, "A/AA/x.txt": b"xx", "A/AA/y": DIR, "A/AA/y/z.txt": b"zz", "r.txt": b"r", "Q": DIR, "Q/q.txt": b"qq"}
    try:
        fb = ops.build(ctx, FT, [c("", ["xxh64"])], expect=[0])
        nb = ops.build(ctx, NT, [c("A/AA", ["xxh64"]), c("A", ["xxh64"]), c("", ["xxh64"])], expect=[0, 0, 0])
        for mv in ([["p", "p2"]], [["p/s", "p/s2"]], [["p/s", "q/s"]], [["p", "q/p"]], [["p", "p2"], ["q", "q2"]]):
            cases.append({"layout": "folders-plain", "base": fb, "mv": mv, "fmts": ["xxh64"], "mapping": {}})
        for mv in ([["A/AA", "A/AB"]], [["A", "B"]], [["A/AA/y", "A/AA/y2"]], [["Q", "Q2"]]):   # (within one parent history)
            cases.append({"layout": "folders-nested", "base": nb, "mv": mv, "fmts": ["xxh64"], "mapping": {}, "nested_root": mv[0][0] in ("A", "A/AA")})
    except ops.ScenarioFailure as f:
        eng.notes.setdefault("skipped_scenarios", []).append(str(f)[:300])
    res = eng.pmap(work, cases)
    trans = 0
    states = set()
    for case, (vs, st) in zip(cases, res):
        eng.add_viols(vs)
        trans += st["cmds"]
        if "mv" in case:
            eng.outcome((case["layout"], str(case["mv"]), "viol" if vs else "ok"))
            states.add((case["layout"], str(case["mv"])))
            continue
        n = sum(o != n for o, n in case["mapping"].items())
        eng.outcome((case["layout"], n, "viol" if vs else "ok"))
        states.add((case["layout"], tuple(sorted(case["mapping"].items())), len(case.get("steps") or [0]), bool(case.get("late"))))
    for cc in cases[:: max(1, len(cases) // 6)]:
        eng.sample({"layout": cc["layout"], "steps": cc.get("steps") or [cc["mapping"]], "extra_new_file": bool(cc.get("extra"))})
    cov = {"states": len(states), "transitions": trans, "traces_validated_against_impl": trans, "exhaustive": True, "cases": len(cases),
           "rule": "sealed tree with 3 (thorough 4) files of pairwise distinct content in two directories: every assignment "
                   "file -> {stay, rename in place, move to the other directory, move+rename} (fresh target names, so no swaps), "
                   "with and without an unrelated new file, with -dr given at once or only after a plain create has recorded the new paths, one- and two-generation histories, a history in which every file was first "
                   "recorded in a different format and the rename generation asks for yet another one, a nested child history, and chained "
                   "renames over 2 (thorough 3) generations; per rename step: plain create => 10 naming the old paths and verify "
                   "!= 0; create -dr => exit 0, new path recorded with previousPath = former path, nothing reported missing; then "
                   "verify / diff / create accept the tree; altering a renamed file => verify 11; plus whole folders renamed or moved under the "
                   "recorded format (plain folders, nested history roots one and two levels down, a folder inside a nested "
                   "history's own tree), each staying within its parent history: create -dr 0, nothing missing, follow-ups accept, an altered file below still fails"}
    eng.assumptions.append("rename targets are fresh names (a swap of two recorded names is indistinguishable from two altered files and is outside the alphabet)")
    return eng.finish(cov, _eval_only)


def replay(path):
    return engine.replay_file(path, _eval_only, PROP)
