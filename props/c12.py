"""C12 - ignore patterns exclude consistently and only ever accumulate (engine E1)"""
from mc import engine, ref, ops
from mc.engine import Viol
from props import e1, c07

PROP = "C12"
DIR = None
T = {"a.txt": b"A", "x.tmp": b"X0", "y.tmp": b"Y0", "u.TMP": b"upper-case extension", ".DS_Store": b"finder", "sub": DIR, "sub/s.txt": b"S", "sub/x.tmp": b"SX",
     "d": DIR, "d/c.txt": b"C", "d/x.tmp": b"DX", "d/sub": DIR, "d/sub/t.txt": b"T", "patterns.lst": b"*.tmp\n\nsub/\nspare copy.mov", "spare copy.mov": b"a name with a blank, excluded by a line of the pattern file",
     # a FILE that has the name of a folder elsewhere, and a FOLDER that has the name of a file elsewhere (directory-only patterns)
     "e": DIR, "e/sub": b"a file called sub", "cache": b"a file called cache", "d/cache": DIR, "d/cache/k.bin": b"K",
     # names with characters that patterns have to escape
     "take[1].mov": b"brackets", "d/#recycle": DIR, "d/#recycle/r.bin": b"R"}
PSETS = [[], ["x.tmp"], ["*.tmp"], ["sub/"], ["sub"], ["*.tmp", "sub/"], ["x.tmp", "x.tmp"], ["y.tmp", "*.tmp"],
         # patterns with a separator are anchored at the command's root; a negated pattern re-includes (the last match decides)
         ["d/sub/t.txt"], ["sub/x.tmp"], ["d/sub/"], ["/x.tmp"], ["*.tmp", "!y.tmp"], ["sub/t.txt", "d/*.tmp"],
         # patterns are case sensitive: these are four different patterns
         ["*.TMP"], ["*.TMP", "*.tmp"], ["SUB/"], ["X.tmp", "x.TMP"], ["cache/"], ["cache/", "sub/"],
         # a backslash takes the next character literally
         ["take\\[1\\].mov"], ["\\#recycle/", "take[1].mov"]]


def file_patterns(tree, o):
    if o.get("ii") is None:
        return []
    data = tree.get(o["ii"]) or b""
    return [ln for ln in data.decode().split("\n") if ln != ""]


def latest_patterns(tree, hroot):
    g = ref.generations(tree, hroot)
    if not g:
        return None
    return ref.read_manifest(g[-1]["bytes"])["ignore"]


def effective(pre, o):
    """(effective pattern list for matching, new patterns given with the command)"""
    prev = latest_patterns(pre, o.get("root", ""))
    given = list(o.get("i") or []) + file_patterns(pre, o)
    base = list(prev) if prev else list(ref.DEFAULT_PATTERNS)
    # ascmhl folders and .DS_Store are always excluded, whatever the recorded list says
    # new patterns are appended without duplicates (the order matters once a negated pattern is in the list)
    eff = list(base)
    for g in given:
        if g not in eff:
            eff.append(g)
    return eff + [p for p in ref.DEFAULT_PATTERNS if p not in eff], given


def scope_rel(R, p):
    return p if R == "" else p[len(R) + 1:]


def in_scope(R, p):
    return R == "" or p.startswith(R + "/")


def classes(pre, R, eff):
    """(altered, removed, new) among the NON-ignored entries, from the on-disk history below R"""
    med = ref.media(pre)
    roots = [r for r in ref.history_roots(pre) if r == R or in_scope(R, r)]
    recorded = {}
    for hr in roots:
        gp = [(g["number"], ref.read_manifest(g["bytes"])) for g in ref.generations(pre, hr)]
        for num, m in gp:
            for rec in m["records"]:
                full = (hr + "/" + rec["path"]) if hr else rec["path"]
                recorded.setdefault(full, (hr, rec["kind"], gp))
    altered, removed, new = [], [], []
    for full, (hr, kind, gp) in recorded.items():
        if not in_scope(R, full) or ref.ignored(eff, scope_rel(R, full), kind == "dir"):
            continue
        if full not in med:
            removed.append(full)
        elif kind == "file" and med[full] is not DIR:
            per, _ = ref.earliest(gp, ref.rel_to(hr, full))
            if any(ref.digest(f, med[full]) != d for f, (d, _) in per.items()):
                altered.append(full)
    for p, c in med.items():
        if in_scope(R, p) and c is not DIR and p not in recorded and not ref.ignored(eff, scope_rel(R, p), False):
            new.append(p)
    return altered, removed, new


def same_root_hashes(pre, R, eff):
    """is the current tree (under the effective patterns) the tree every generation of the history at R recorded?
    decided with the reference recursion against the recorded root hashes; otherwise the tree legitimately evolved
    between generations and `verify -dh` is not judged (the statement fixes only the two ends)"""
    med = ref.media(pre)
    n = 0
    for hr in [r for r in ref.history_roots(pre) if r == R or in_scope(R, r)]:
        # entries are matched relative to the command's root R, hashed relative to the history root hr
        sub_tree = {p[len(hr) + 1:] if hr else p: c for p, c in med.items() if in_scope(hr, p)}
        pre_rel = scope_rel(R, hr) + "/" if hr != R else ""
        for g in ref.generations(pre, hr):
            rh = ref.read_manifest(g["bytes"])["roothash"]
            if not rh:
                continue
            for hc, hs in zip(rh["content"], rh["structure"]):
                n += 1
                want = ref.dir_hashes(sub_tree, "", hc["format"], lambda p, d: ref.ignored(eff, pre_rel + p, d))
                if (hc["digest"], hs["digest"]) != want:
                    return False
    return n > 0


def constant_patterns(pre, R, given):
    lists = [ref.read_manifest(g["bytes"])["ignore"] for r in ref.history_roots(pre) if r == R or in_scope(R, r)
             for g in ref.generations(pre, r)]
    return not [g for g in given if lists and g not in lists[0]] and all(l == lists[0] for l in lists)


def judge(pre, op, post, res, obs, meta):
    name, o = op[0], op[1]
    if name not in ("create", "verify", "diff"):
        return []
    R = o.get("root", "")
    eff, given = effective(pre, o)
    med = ref.media(pre)
    form = name + ("-sf" if name == "create" and o.get("sf") else "") + ("-dh" if o.get("dh") else "")
    v = []
    sig = {"cmd": form}

    def V(kind, detail, **extra):
        v.append(Viol(PROP, kind, dict(sig, **extra), detail))

    def ign(p, isdir):
        return ref.ignored(eff, scope_rel(R, p), isdir)

    def shape(p):   # which kind of pattern makes p ignored (for signatures)
        rel = scope_rel(R, p)
        pats = [q for q in eff if ref.ignored([q], rel, med.get(p, 0) is DIR)]
        return ("dirpattern" if any(q.endswith("/") and q != "ascmhl/" for q in pats) else
                "glob" if any(q.startswith("*") for q in pats) else "name")

    if res.exc is not None:
        V("abort", f"{ops.label(op)}: {res.exc} {res.tb}", exc=res.exc.split(":")[0])
        return v
    ignored_paths = sorted(p for p, c in med.items() if in_scope(R, p) and ign(p, c is DIR))
    # never opened
    if obs and obs.get("opens") is not None and "meta_pre" in obs:
        root = obs["root"]
        for fp in obs["opens"]:
            if fp.startswith(root + "/"):
                rel = fp[len(root) + 1:]
                if rel in med and in_scope(R, rel) and not ref.is_in_ascmhl(rel) and ign(rel, False) \
                        and rel != (o.get("ii") or ""):
                    V("ignored-path-opened", f"{ops.label(op)} opened the ignored file {rel} (effective patterns {eff})",
                      shape=shape(rel))
    alt, rem, new = classes(pre, R, eff)
    if name == "create":
        newm = [p for p in post if p.endswith(".mhl") and p not in pre and ref.is_in_ascmhl(p)]
        top = None
        for mp in newm:
            hr = mp[:mp.rfind("ascmhl/")].rstrip("/")
            m = ref.read_manifest(post[mp])
            if hr == R:
                top = m
            # (i) no record for an ignored path
            for rec in m["records"]:
                full = (hr + "/" + rec["path"]) if hr else rec["path"]
                if in_scope(R, full) and ign(full, rec["kind"] == "dir"):
                    V("ignored-path-recorded", f"{ops.label(op)}: {full} ({rec['kind']}) is matched by {eff} but recorded in {mp}",
                      what=rec["kind"], shape=shape(full))
            # (ii) accumulation
            prev = latest_patterns(pre, hr)
            now_p = m["ignore"] or []
            if prev and now_p[:len(prev)] != prev:
                V("patterns-not-prefix", f"{mp}: patterns {now_p} do not start with those of the previous generation {prev}")
            if len(set(now_p)) != len(now_p):
                V("patterns-duplicate", f"{mp}: duplicate patterns {now_p}")
            lack = [g for g in given if g not in now_p]
            if lack:
                V("patterns-new-missing", f"{mp}: patterns {lack} given with the command are not recorded ({now_p})",
                  nested=hr != R)
            if hr != R and top is None:
                pass
        for mp in newm:   # nested generations contain the parent's patterns
            hr = mp[:mp.rfind("ascmhl/")].rstrip("/")
            if hr != R and top is not None:
                now_p = ref.read_manifest(post[mp])["ignore"] or []
                lack = [q for q in (top["ignore"] or []) if q not in now_p]
                if lack:
                    V("patterns-not-propagated", f"{mp}: parent patterns {lack} missing in the nested generation ({now_p})")
        # directory hashes over exactly the non-ignored entries
        if not o.get("sf") and not o.get("n") and res.exit in (0, 10, 11):
            got = c07.manifest_dirhashes({p: post[p] for p in newm} | {ref.parent(p): DIR for p in newm})
            for (kind, d), per in got.items():
                if d and (d not in med or ign(d, True)):
                    continue
                sub_tree = {p[len(R) + 1:] if R else p: c for p, c in med.items() if in_scope(R, p)}
                drel = scope_rel(R, d) if d != R else ""
                for f, (c, s) in per.items():
                    wc, ws = ref.dir_hashes(sub_tree, drel, f, lambda p, isd: ref.ignored(eff, p, isd))
                    if (c, s) != (wc, ws):
                        # which ignored entry leaked?  (for the signature)
                        V("dirhash-counts-ignored", f"{ops.label(op)}: {kind} hash of '{d or '.'}' ({f}) is {c}/{s}, the definition over "
                          f"the non-ignored entries gives {wc}/{ws} (ignored: {ignored_paths})",
                          leak="+".join(sorted({shape(p) for p in ignored_paths if ref.parent(p) == d or d == ""})))
                        break
        if not alt and not rem and res.exit != 0:
            V("ignored-change-reported", f"{ops.label(op)}: exit {res.exit} although every difference concerns ignored paths "
              f"{ignored_paths}\n{res.err[-300:]}", exit=res.exit)
    else:
        judged = True
        if o.get("dh"):
            judged = constant_patterns(pre, R, given) and same_root_hashes(pre, R, eff)
            differs = alt or rem or new
        else:
            differs = (alt or rem or new) if name == "verify" else (rem or new)
        if judged and not differs and res.exit != 0:
            V("ignored-change-reported", f"{ops.label(op)}: exit {res.exit} although every difference concerns ignored paths "
              f"{ignored_paths}\n{res.err[-300:]}", exit=res.exit)
        for p in ignored_paths:
            if not ref.is_in_ascmhl(p) and any(p in ln.split() and ("new file" in ln or ln.startswith("  ")) for ln in res.err.splitlines()):
                V("ignored-path-reported", f"{ops.label(op)}: ignored path {p} reported:\n{res.err[-300:]}", shape=shape(p))
    return v


def classify(pre, op, post, res):
    return len(effective(pre, op[1])[0]) if op[0] in ("create", "verify", "diff") else 0


def enabled(tree, meta):
    out = []
    g, mg = meta["cmds"], meta["max_cmds"]
    med = ref.media(tree)
    c = ops.create
    if g < mg:
        m2 = dict(meta, cmds=g + 1)
        cont = True   # the state after the last create is still visited: the read-only commands run there
        for ps in PSETS if g < 2 or meta.get("rich") else PSETS[:5] + PSETS[8:10] + PSETS[14:16]:
            out.append((c("", ["md5"], i=ps), m2, cont))
        out.append((c("", ["md5"], ii="patterns.lst"), m2, cont))
        out.append((c("", ["md5"], ii="patterns.lst", i=["a.txt"]), m2, cont))
        out.append((c("", ["md5"], n=True), m2, cont))                 # folders recorded without directory hashes ...
        out.append((c("", ["md5"], n=True, i=["sub/"]), m2, cont))     # ... and excluded by a directory pattern
        out.append((c("", ["md5"], sf=["d"]), m2, cont))
        out.append((c("", ["md5"], sf=["d"], i=["*.tmp"]), m2, cont))
        if "sub" in med:
            out.append((c("", ["md5"], sf=["sub"]), m2, cont))
        out.append((c("d", ["md5"], i=["y.tmp"]), m2, cont))
        out.append((c("d", ["md5"]), m2, cont))
    if g >= 1:
        for ro in (["verify", {"root": ""}], ["verify", {"root": "", "i": ["*.tmp"]}], ["verify", {"root": "", "dh": True}],
                   ["diff", {"root": ""}], ["diff", {"root": "", "i": ["sub/"]}], ["verify", {"root": "", "ii": "patterns.lst"}],
                   ["verify", {"root": "", "dh": True, "i": ["*.tmp"]}], ["verify", {"root": "", "dh": True, "ii": "patterns.lst"}],
                   ["diff", {"root": "", "ii": "patterns.lst"}], ["verify", {"root": "", "dh": True, "i": ["sub"], "ii": "patterns.lst"}]):
            out.append((ro, None, False))
    if g >= 1 and meta["edits"] < meta["max_edits"] and g < mg:
        m3 = dict(meta, edits=meta["edits"] + 1)
        for e in (["write", "x.tmp", b"X1"], ["rm", "x.tmp"], ["write", "d/x.tmp", b"DX1"], ["write", "z.tmp", b"Z new"],
                  ["rm", "sub/s.txt"], ["write", "sub/new.txt", b"new in sub"], ["rm", "sub"], ["write", "d/sub/x.tmp", b"deep"],
                  ["rm", ".DS_Store"], ["write", "d/.DS_Store", b"new finder"]):
            if e[0] == "rm" and e[1] not in med:
                continue
            if e[0] == "write" and med.get(e[1]) == e[2]:
                continue
            out.append((e, m3, True))
    return out


eval_case = e1.eval_case


def main(tier, seed):
    eng = engine.Engine(PROP, tier, seed, "model_checking")
    engine.selftest(eng)
    plans = [dict(max_cmds=2, max_edits=1)] if tier == "quick" else [dict(max_cmds=3, max_edits=0), dict(max_cmds=2, max_edits=2, rich=True)]
    # the same with the root folder spelled with a trailing separator (tab completion) and as '.' from inside
    plans += [dict(max_cmds=2, max_edits=0 if tier == "quick" else 1, spell=sp) for sp in ("slash", "dot")]
    tot = {"states": 0, "transitions": 0}
    runs = []
    for pl in plans:
        meta = dict(alpha="c12", oracles=["c12"], observe=True, cmds=0, edits=0, **pl)
        r = engine.bfs(eng, e1.expand, [(dict(T), meta, "tree")], max_depth=pl["max_cmds"] + pl["max_edits"] + 1,
                       label=ops.label, state_cap=300000)
        runs.append(dict(pl, **r))
        tot["states"] += r["states"]
        tot["transitions"] += r["transitions"]
    cov = {"states": tot["states"], "transitions": tot["transitions"], "traces_validated_against_impl": tot["transitions"],
           "exhaustive": not eng.caps, "runs": runs,
           "rule": "BFS from a tree with entries matching the pattern alphabet {x.tmp, *.tmp, sub/, sub} at depth 0-2: create with "
                   "every pattern set via -i / repeated -i / -ii, create -sf of folders (+ -i), creates at a nested root (own "
                   "pattern), edits that create / change / delete ignored and matching files, then verify / verify -dh / diff with "
                   "and without extra patterns; oracle: own matcher (no pathspec) - ignored paths are in no new record, never "
                   "opened (audit events), in no directory hash (reference recursion), never reported; pattern lists only grow"}
    eng.assumptions.append("a child history's own older patterns are not part of the effective set of a parent run (statement: 'those of the latest generation' of the command's history)")
    return eng.finish(cov, eval_case)


def replay(path):
    return engine.replay_file(path, eval_case, PROP)
