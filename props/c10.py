"""C10 - manifests and chain files read back exactly what was written (engine E2, bounded-exhaustive)"""
import datetime
import itertools
import os
import unicodedata

from mc import engine, ref, ops, sub
from mc.engine import Viol

PROP = "C10"
TEXTS = ["plain.txt", "with space.txt", "ümläut/ß.mov", "amp&lt<gt>quot\"apos'.x", "cdata]]>end", " leading-blank", "trailing-blank ",
         "back\\slash.txt", "#hash & ; semi.txt", "line\u2028sep", "para\u2029sep", "nb\u00a0sp", "astral\U0001F3AC.mov", "dir/sub dir/deep file.bin"]
DIG = {"md5": "d41d8cd98f00b204e9800998ecf8427e", "sha1": "da39a3ee5e6b4b0d3255bfef95601890afd80709",
       "xxh64": "ef46db3751d8e999", "xxh3": "2d06800538d394c2", "xxh128": "99aa06d3014798d86001c324468d497f",
       "c4": ref.KAT_EMPTY["c4"]}
DIG2 = {f: ref.digest(f, b"other") for f in DIG}
D_US = datetime.datetime(2020, 7, 1, 10, 40, 0, 250000)
D_S = datetime.datetime(2021, 1, 2, 3, 4, 5)
STEP = datetime.timedelta(seconds=7, microseconds=1)

AUTHORS = [[], [("Jane Doe", None, None, None)], [("Jane Doe", "j@x.org", "+1 555", "DIT")], [(None, "only@mail.org", None, None)],
           [("A & <B>", None, None, "role \"q\"")], [("-", None, None, None)], [("-", "dash@x.org", None, None)],
           [("First", "f@x.org", None, None), ("Second ü", None, "123", "loader")], [("na\u2028me", None, None, None)],
           [(" ", None, None, None)], [("\u3000", "blank@x.org", None, None)], [(" lead and trail ", None, None, " r ")],
           # characters beyond the Basic Multilingual Plane (a CJK Extension B surname, emoji)
           [("\U00020BB7\u7530 \U0001F3AC", "y@x.org", "\U0001F4DE 555", "DIT \U0001F3A5")]]

DEFAULT = {"path": "plain.txt", "size": 1234, "fmts": ["xxh64"], "action": "original", "hashdate": D_US, "prev": None,
           "dirpath": "some dir", "dirfmts": ["xxh64"], "roothash": ["xxh64"], "patterns": [".DS_Store", "ascmhl", "ascmhl/"],
           "refs": 0, "host": "verifhost", "tool": ("ascmhl", "1.0"), "authors": [], "location": None, "comment": None,
           "process": "in-place", "extra_records": 0}
ALTS = {
    "path": TEXTS[1:],
    "size": [0, 1, 2 ** 40, None],
    "fmts": [[f] for f in ref.FORMATS_CLI if f != "xxh64"] + [["md5", "c4"], ["xxh64", "c4", "md5"], list(ref.FORMATS_CLI)],
    "action": ["verified", "failed"],
    "hashdate": [D_S],
    "prev": ["old name.txt", "ü/old&<.x", "old\u2028name"],
    "dirpath": ["ümläut dir", "a&b<c>", "d/e/f", "dir\u2029p"],
    "dirfmts": [["md5"], ["xxh64", "c4", "md5"], list(ref.FORMATS_CLI), []],
    "roothash": [None, ["md5"], ["xxh64", "c4"]],
    "patterns": [["*.tmp"], ["a b", "ü&<x>", "sub/"], ["#lead", "trail ", "back\\slash", "!neg", "a/**/b"], [".DS_Store", "ascmhl", "ascmhl/", "*.tmp", "x y/"], ["pat\u2028tern"]],
    "refs": [1, 2],
    "host": ["host name", "hößt&<", "h\u2028ost", "h\U0001F5A5st"],
    "tool": [("my tool", "0.1 beta"), ("t&<", "v\"1\""), ("tool\U0001F527", "1\U0001F4A5")],
    "authors": AUTHORS[1:],
    "location": ["Stage 5", "Zürich & <co>", "loc\u2028ation", "Studio \U0001F3AC \U00020BB7"],
    "comment": ["a comment", "multi  space & <tags>", "com\u2029ment", "take \U0001F44D"],
    "process": ["flatten", "transfer"],
    "extra_records": [1, 3],
}


def build_and_roundtrip(ctx, spec, case):
    """write a model object with the tool's writer; read it with the tool's reader and with the independent reader"""
    from ascmhl import hashlist as HL, hashlist_xml_parser as XP
    from ascmhl.ignore import MHLIgnoreSpec
    v = []
    d = ctx.fresh("c10")
    ad = os.path.join(d, "root", "ascmhl")
    os.makedirs(ad)
    sub.NOW[0] = sub.NOW0
    hl = HL.MHLHashList()
    ci = HL.MHLCreatorInfo()
    ci.host_name = spec["host"]
    ci.tool = HL.MHLTool(*spec["tool"])
    ci.creation_date = "2020-07-01T10:40:00+00:00"
    ci.location, ci.comment = spec["location"], spec["comment"]
    for a in spec["authors"]:
        ci.authors.append(HL.MHLAuthor(a[0], a[1], a[2], a[3]))
    hl.creator_info = ci
    hl.process_info.process = HL.MHLProcess(spec["process"])
    hl.process_info.ignore_spec = MHLIgnoreSpec(list(spec["patterns"]))
    written = {"records": []}

    def add_file(path, size, fmts, action, hashdate, prev):
        mh = HL.MHLMediaHash()
        mh.path, mh.file_size, mh.last_modification_date, mh.previous_path = path, size, D_S, prev
        # every digest of a record carries its own hash date (they are made one after the other)
        for k, f in enumerate(fmts):
            mh.append_hash_entry(HL.MHLHashEntry(f, DIG[f], action, hashdate + STEP * k))
        hl.append_hash(mh)
        written["records"].append(("file", path, size, prev, [(f, DIG[f], action, hashdate + STEP * k, None) for k, f in enumerate(fmts)]))

    add_file(spec["path"], spec["size"], spec["fmts"], spec["action"], spec["hashdate"], spec["prev"])
    for i in range(spec["extra_records"]):
        add_file(f"extra/{i} {TEXTS[(i * 5 + 3) % len(TEXTS)]}", i, ["md5", "xxh64"], "verified", D_S, None)
    mh = HL.MHLMediaHash()
    mh.path, mh.is_directory, mh.last_modification_date = spec["dirpath"], True, D_S
    for k, f in enumerate(spec["dirfmts"]):
        e = HL.MHLHashEntry(f, DIG[f], None, D_US + STEP * k)
        e.structure_hash_string = DIG2[f]
        mh.append_hash_entry(e)
    hl.append_hash(mh)
    written["records"].append(("dir", spec["dirpath"], None, None, [(f, DIG[f], None, D_US + STEP * k, DIG2[f]) for k, f in enumerate(spec["dirfmts"])]))
    if spec["roothash"] is not None:
        rh = HL.MHLMediaHash()
        rh.path, rh.is_directory = ".", True
        for f in spec["roothash"]:
            e = HL.MHLHashEntry(f, DIG2[f], None, D_US)
            e.structure_hash_string = DIG[f]
            rh.append_hash_entry(e)
        hl.append_hash(rh)
    refs = []
    for i in range(spec["refs"]):
        cd = os.path.join(d, "root", TEXTS[i * 2 + 1].split("/")[0] + " child", "ascmhl")
        os.makedirs(cd)
        cp = os.path.join(cd, f"000{i + 1}_child_2020-07-01_104000Z.mhl")
        with sub.REAL["open"](cp, "wb") as f:
            f.write(b"<hashlist>child %d</hashlist>" % i)
        ch = HL.MHLHashList()
        ch.file_path = cp
        hl.referenced_hash_lists.append(ch)
        refs.append((os.path.relpath(cp, os.path.join(d, "root")), ref.digest("c4", b"<hashlist>child %d</hashlist>" % i)))
    fp = os.path.join(ad, "0001_root_2020-07-01_104000Z.mhl")
    flat = repr([spec[k] for k in sorted(spec) if k != "hashdate"])
    feats = {"linesep": "\\u2028" in flat or "\\u2029" in flat, "dash_author": any(a[0] == "-" for a in spec["authors"]),
             "size0": spec["size"] == 0}

    def V(kind, detail, **extra):
        f = extra.get("field")
        sig = dict(extra, linesep=feats["linesep"], dash_author=feats["dash_author"] and f == "authors",
                   size0=feats["size0"] and f == "size")
        v.append(Viol(PROP, kind, sig, f"[deviating fields {case['dev']}] " + detail, case))

    try:
        XP.write_hash_list(hl, fp)
    except Exception as e:
        V("write-fails", f"writer raised {type(e).__name__}: {e}", exc=type(e).__name__)
        sub.rm(d)
        return v
    data = sub.REAL["open"](fp, "rb").read()
    # --- the tool's own reader
    try:
        back = XP.parse(fp)
    except Exception as e:
        V("tool-reader-fails", f"parse raised {type(e).__name__}: {e}", exc=type(e).__name__)
        back = None
    aware = lambda x: None if x is None else x.replace(tzinfo=datetime.timezone.utc)
    if back is not None:
        got = []
        for m in back.media_hashes:
            got.append(("dir" if m.is_directory else "file", m.path, m.file_size, m.previous_path,
                        [(e.hash_format, e.hash_string, e.action, e.hash_date, e.structure_hash_string) for e in m.hash_entries]))
        want = []
        for kind, path, size, prev, ents in written["records"]:
            ents2 = sorted(ents, key=lambda e: e[0]) if kind == "file" else ents   # file entries are written alphabetically
            want.append((kind, path, size, prev, [(f, dg, ac, aware(hd), st) for f, dg, ac, hd, st in ents2]))
        for w, g in itertools.zip_longest(want, got):
            if w != g:
                field = "count" if w is None or g is None else next(n for n, a, b in zip(("kind", "path", "size", "previousPath", "entries"), w, g) if a != b)
                V("tool-reader-record", f"record written {w} read back {g}", field=field)
                break
        rh = back.process_info.root_media_hash
        got_rh = None if rh is None or not rh.hash_entries else [(e.hash_format, e.hash_string, e.structure_hash_string) for e in rh.hash_entries]
        want_rh = None if not spec["roothash"] else [(f, DIG2[f], DIG[f]) for f in spec["roothash"]]
        if got_rh != want_rh:
            V("tool-reader-roothash", f"root hash written {want_rh} read {got_rh}")
        gp = back.process_info.ignore_spec.get_pattern_list()
        if gp != list(spec["patterns"]):
            V("tool-reader-patterns", f"patterns written {spec['patterns']} read {gp}")
        c = back.creator_info
        gc = (c.host_name, c.tool.name, c.tool.version, c.creation_date, c.location, c.comment,
              [(a.name, a.email, a.phone, a.role) for a in c.authors])
        wc = (spec["host"], spec["tool"][0], spec["tool"][1], ci.creation_date, spec["location"], spec["comment"],
              [tuple(a) for a in spec["authors"]])
        if gc != wc:
            field = next(n for n, a, b in zip(("host", "tool", "toolversion", "creationdate", "location", "comment", "authors"), wc, gc) if a != b)
            V("tool-reader-creator", f"creator info written {wc} read {gc}", field=field)
        if back.process_info.process != spec["process"]:
            V("tool-reader-process", f"process written {spec['process']} read {back.process_info.process}")
        gr = [(r.path, r.reference_hash) for r in back.hash_list_references]
        if gr != refs:
            V("tool-reader-references", f"references written {refs} read {gr}")
    # --- the independent reader
    try:
        m = ref.read_manifest(data)
    except Exception as e:
        V("independent-reader-fails", f"file is not well-formed XML: {e}")
        sub.rm(d)
        return v
    iso = lambda x: None if x is None else aware(datetime.datetime.fromisoformat(x))
    got = []
    for rec in m["records"]:
        if rec["kind"] == "file":
            ents = [(h["format"], h["digest"], h["action"], iso(h["hashdate"]), None) for h in rec["hashes"]]
        else:
            st = {h["format"]: h["digest"] for h in rec["structure"]}
            ents = [(h["format"], h["digest"], h["action"], iso(h["hashdate"]), st.get(h["format"])) for h in rec["content"]]
        got.append((rec["kind"], rec["path"], None if rec["size"] is None else int(rec["size"]), rec["previousPath"], ents))
    for w, g in itertools.zip_longest(want if back is not None else [], got):
        if back is not None and w != g:
            field = "count" if w is None or g is None else next(n for n, a, b in zip(("kind", "path", "size", "previousPath", "entries"), w, g) if a != b)
            V("independent-reader-record", f"record written {w}, XML infoset holds {g}", field=field)
            break
    if (m["ignore"] or []) != list(spec["patterns"]):
        V("independent-reader-patterns", f"patterns written {spec['patterns']}, XML holds {m['ignore']}")
    wi = (spec["host"], spec["tool"][0], spec["tool"][1], spec["location"], spec["comment"], [tuple(a) for a in spec["authors"]])
    gi = (m["hostname"], m["tool"], m["tool_version"], m["location"], m["comment"],
          [(a["name"], a["email"], a["phone"], a["role"]) for a in m["authors"]])
    if wi != gi:
        field = next(n for n, a, b in zip(("host", "tool", "toolversion", "location", "comment", "authors"), wi, gi) if a != b)
        V("independent-reader-creator", f"creator info written {wi}, XML holds {gi}", field=field)
    if [(r["path"], r["c4"]) for r in m["references"]] != refs:
        V("independent-reader-references", f"references written {refs}, XML holds {m['references']}")
    if m["process"] != spec["process"]:
        V("independent-reader-process", f"process {m['process']}")
    sub.rm(d)
    return v


def chain_roundtrip(ctx, names, case):
    from ascmhl import chain as CH, chain_xml_parser as CP, hashlist as HL
    v = []
    d = ctx.fresh("c10c")
    chain = CH.MHLChain(os.path.join(d, "ascmhl_chain.xml"))
    want = []
    for i, n in enumerate(names[:-1]):
        fn = f"{i + 1:04d}_{n}_2020-07-01_104000Z.mhl"
        dg = ref.digest("c4", fn.encode())
        chain.append_generation(CH.MHLChainGeneration(i + 1, fn, "c4", dg))
        want.append((i + 1, fn, dg))
    last = f"{len(names):04d}_{names[-1]}_2020-07-01_104000Z.mhl"
    with sub.REAL["open"](os.path.join(d, last), "wb") as f:
        f.write(b"<hashlist/>")
    hl = HL.MHLHashList()
    hl.file_path, hl.generation_number = os.path.join(d, last), len(names)
    want.append((len(names), last, ref.digest("c4", b"<hashlist/>")))
    sig = {"linesep": any("\u2028" in n or "\u2029" in n for n in names)}
    try:
        CP.write_chain(chain, hl)
        back = CP.parse(chain.file_path)
        got = [(int(g.generation_number), g.ascmhl_filename, g.hash_string) for g in back.generations]
        if got != want:
            v.append(Viol(PROP, "tool-reader-chain", sig, f"chain written {want} read {got}", case))
        ind = [(int(g["sequencenr"]), g["path"], g["c4"]) for g in ref.read_chain(sub.REAL["open"](chain.file_path, "rb").read())]
        if ind != want:
            v.append(Viol(PROP, "independent-reader-chain", sig, f"chain written {want}, XML holds {ind}", case))
    except Exception as e:
        v.append(Viol(PROP, "chain-roundtrip-fails", dict(sig, exc=type(e).__name__), f"{type(e).__name__}: {e}", case))
    sub.rm(d)
    return v


def codepoints(ctx, cps, case):
    """every code point as the middle character of a three-character path, thousands per manifest"""
    from ascmhl import hashlist as HL, hashlist_xml_parser as XP
    v = []
    d = ctx.fresh("c10u")
    os.makedirs(os.path.join(d, "root", "ascmhl"))
    hl = HL.MHLHashList()
    ci = HL.MHLCreatorInfo()
    ci.host_name, ci.tool, ci.creation_date = "h", HL.MHLTool("t", "1"), "2020-07-01T10:40:00+00:00"
    hl.creator_info = ci
    hl.process_info.process = HL.MHLProcess("in-place")
    paths = ["a" + chr(cp) + "b" for cp in cps]
    for p in paths:
        mh = HL.MHLMediaHash()
        mh.path, mh.file_size = p, 1
        mh.append_hash_entry(HL.MHLHashEntry("md5", DIG["md5"], "original", D_S))
        hl.append_hash(mh)
    fp = os.path.join(d, "root", "ascmhl", "0001_root_2020-07-01_104000Z.mhl")
    try:
        XP.write_hash_list(hl, fp)
        back = [m.path for m in XP.parse(fp).media_hashes]
        ind = [r["path"] for r in ref.read_manifest(sub.REAL["open"](fp, "rb").read())["records"]]
    except Exception as e:
        v.append(Viol(PROP, "codepoint-batch-fails", {"exc": type(e).__name__}, f"batch {cps[0]:#x}..{cps[-1]:#x}: {type(e).__name__}: {e}", case))
        sub.rm(d)
        return v
    for name, got in (("tool-reader", back), ("independent-reader", ind)):
        if got != paths:
            bad = [f"U+{ord(w[1]):04X}" for w, g in itertools.zip_longest(paths, got, fillvalue="???") if w != g][:8]
            cats = sorted({unicodedata.category(w[1]) for w, g in zip(paths, got) if w != g})
            v.append(Viol(PROP, "codepoint-path", {"reader": name, "cats": "+".join(cats)},
                          f"{name}: paths differ for code points {bad} (of batch {cps[0]:#x}..{cps[-1]:#x})", case))
    sub.rm(d)
    return v


def legal_codepoints(hi):
    out = []
    for cp in range(0x20, hi + 1):
        if 0x7F <= cp <= 0x9F or 0xD800 <= cp <= 0xDFFF or cp in (0xFFFE, 0xFFFF):
            continue
        out.append(cp)
    return out


def eval_case(ctx, case):
    if "spec" in case:
        return build_and_roundtrip(ctx, case["spec"], case)
    if "chain" in case:
        return chain_roundtrip(ctx, case["chain"], case)
    if "cps" in case:
        return codepoints(ctx, case["cps"], case)
    if "tree" in case:
        return sealed_tree(ctx, case)
    if "collection" in case:
        return collection(ctx, case)
    return []


def sealed_tree(ctx, case):
    """(c) manifests produced by real commands: tool reader and independent reader agree"""
    from ascmhl import hashlist_xml_parser as XP
    v = []
    t = ops.build(ctx, case["tree"], case["ops"])
    sub.materialise(ctx.root, t)
    for p in sorted(t):
        if not (p.endswith(".mhl") and ref.is_in_ascmhl(p)):   # media files may be called *.mhl as well
            continue
        back = XP.parse(os.path.join(ctx.root, p))
        m = ref.read_manifest(t[p])
        a = [(("dir" if x.is_directory else "file"), x.path, x.file_size, x.previous_path,
              sorted((e.hash_format, e.hash_string, e.action) for e in x.hash_entries)) for x in back.media_hashes]
        b = [(r["kind"], r["path"], None if r["size"] is None else int(r["size"]), r["previousPath"],
              sorted((h["format"], h["digest"], h["action"]) for h in (r["hashes"] or r["content"]))) for r in m["records"]]
        if a != b:
            diff = next((x, y) for x, y in itertools.zip_longest(a, b) if x != y)
            v.append(Viol(PROP, "readers-disagree", {"what": "records"}, f"{p}: tool reader {diff[0]} vs XML infoset {diff[1]}", case))
        med = {q: c for q, c in ref.media(t).items()}
        hr = p[:p.rfind("ascmhl/")].rstrip("/")
        for r in m["records"]:
            full = (hr + "/" + r["path"]) if hr else r["path"]
            if full not in med:
                v.append(Viol(PROP, "recorded-path-not-on-disk", {"what": r["kind"]},
                              f"{p}: recorded path {r['path']!r} does not name an entry of the sealed tree", case))
            elif r["kind"] == "file" and r["size"] is not None and int(r["size"]) != len(med[full]):
                v.append(Viol(PROP, "size-roundtrip", {}, f"{p}: {r['path']} size {r['size']} but file has {len(med[full])} bytes", case))
    return v


def collection(ctx, case):
    """(d) the chain of a flatten destination that already holds packing lists (every packing list is generation 1 of its
    collection): written by real flatten runs, read by the tool's reader and by the independent one"""
    from ascmhl import chain_xml_parser as CP
    v = []
    t = ops.build(ctx, case["collection_tree"], [ops.create("", ["md5"])], expect=[0])
    sub.materialise(ctx.root, t)
    dest = ctx.fresh("c10dest")
    for i in range(case["collection"]):
        r = ctx.run("flatten", [ctx.root, dest], now=sub.NOW0 + 100 + 10 * i)
        if r.exit != 0 or r.exc:
            v.append(Viol(PROP, "flatten-fails", {"nth": i + 1}, f"flatten #{i + 1} into the same destination: exit {r.exit} {r.exc}\n{r.err[-300:]}", case))
            sub.rm(dest)
            return v
    out = sub.readback(dest)
    chains = [p for p in out if p.endswith("ascmhl_collection.xml")]
    lists = sorted(p for p in out if p.endswith(".mhl"))
    sig = {"flattened": case["collection"]}
    if len(chains) != 1 or len(lists) != case["collection"]:
        v.append(Viol(PROP, "collection-files", sig, f"destination holds {sorted(out)}", case))
        sub.rm(dest)
        return v
    want = sorted((p.split("/")[-1], ref.digest("c4", out[p])) for p in lists)
    ind = [(g["path"], g["c4"]) for g in ref.read_chain(out[chains[0]])]
    back = [(g.ascmhl_filename, g.hash_string) for g in CP.parse(os.path.join(dest, chains[0])).generations]
    if sorted(ind) != want:
        v.append(Viol(PROP, "independent-reader-chain", sig, f"packing lists on disk {want}, collection file holds {ind}", case))
    if back != ind:
        v.append(Viol(PROP, "tool-reader-chain", sig, f"collection file holds {len(ind)} entries {ind}, the tool's reader returns {len(back)}: {back}", case))
    sub.rm(dest)
    return v


def work(ctx, case):
    return eval_case(ctx, case)


def main(tier, seed):
    eng = engine.Engine(PROP, tier, seed, "exploration")
    engine.selftest(eng)
    cases = [{"spec": dict(DEFAULT), "dev": []}]
    fields = sorted(ALTS)
    singles = [(f, a) for f in fields for a in ALTS[f]]
    for f, a in singles:
        cases.append({"spec": dict(DEFAULT, **{f: a}), "dev": [f]})
    for (f1, a1), (f2, a2) in itertools.combinations(singles, 2):
        if f1 != f2:
            cases.append({"spec": dict(DEFAULT, **{f1: a1, f2: a2}), "dev": [f1, f2]})
    if tier == "thorough":
        core = [(f, a) for f, a in singles if f in ("path", "size", "fmts", "prev", "dirfmts", "roothash", "authors", "refs", "patterns")]
        for c in itertools.combinations(core, 3):
            if len({f for f, _ in c}) == 3:
                cases.append({"spec": dict(DEFAULT, **dict(c)), "dev": [f for f, _ in c]})
    for n in range(1, 4):
        for names in itertools.product(["root", "my folder", "ü&<b>", "li\u2028ne"], repeat=n):
            cases.append({"chain": list(names), "dev": ["chain"]})
    cases.append({"chain": ["root"] * 12, "dev": ["chain"]})
    cases.append({"chain": ["my folder"] * 101, "dev": ["chain"]})
    cps = legal_codepoints(0xFFFF if tier == "quick" else 0x10FFFF)
    for i in range(0, len(cps), 4096):
        cases.append({"cps": cps[i:i + 4096], "dev": ["codepoints"]})
    from props import c02
    pool = {p: c for p, c in c02.POOL_X}
    cases.append({"tree": pool, "ops": [ops.create("d", ["md5"]), ops.create("", ["xxh64", "c4"]), ops.create("", ["sha1"], n=True)], "dev": ["sealed"]})
    cases.append({"tree": pool, "ops": [ops.create("", list(ref.FORMATS_CLI)), ops.create("", ["md5"], sf=["d/f.txt", "e.dat"])], "dev": ["sealed"]})
    for n in (1, 2, 3):
        cases.append({"collection": n, "collection_tree": {"a.txt": b"A", "d": None, "d/b c.txt": b"B"}, "dev": ["collection"]})
    res = eng.pmap(work, cases)
    distinct = set()
    for case, vs in zip(cases, res):
        eng.add_viols(vs)
        kind = "spec" if "spec" in case else ("chain" if "chain" in case else "codepoints" if "cps" in case else
                                               "collection" if "collection" in case else "sealed")
        eng.outcome((kind, len(case["dev"]), "viol" if vs else "ok"))
        distinct.add(repr(case.get("spec") or case.get("chain") or case.get("collection") or (case.get("cps") or [0])[0]))
    eng.sample({"deviation": cases[5]["dev"], "spec": {k: repr(v) for k, v in cases[5]["spec"].items()}})
    eng.sample({"deviation": cases[len(singles) + 50]["dev"]})
    eng.sample({"codepoint_batch": [hex(cps[0]), hex(cps[4095])]})
    cov = {"evaluations": len(cases), "distinct_nontrivial": len(distinct), "exhaustive": True,
           "code_points": len(cps), "field_alternatives": len(singles),
           "rule": "(a) model objects = a default manifest object deviating in <=2 (thorough: <=3 over the core fields) of the fields "
                   "path / size / format subset / action / hash date / previous path / directory record / root hash / patterns / "
                   "references / host / tool / authors / location / comment / process, written by the tool's writer, read by the "
                   "tool's parser and by an independent lxml reader, compared field by field; chain files with 1-3 entries over "
                   "awkward folder names; (b) every XML-legal non-control code point (quick: BMP, thorough: all planes) as the "
                   "middle character of a path, 4096 per manifest; (c) manifests of real command sequences over the awkward-name "
                   "pool: both readers agree and every recorded path names an entry of the sealed tree; (d) one history flattened 1-3 times "
                   "into the same destination: the collection file lists every packing list with its digest for both readers"}
    eng.assumptions.append("last-modification date is not in the statement's list and is not compared; dates compare as instants; "
                           "text fields range over non-empty strings")
    return eng.finish(cov, eval_case)


def replay(path):
    return engine.replay_file(path, eval_case, PROP)
