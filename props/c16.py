"""C16 - recorded size and timestamps describe the real file in any time zone (engine E2, exhaustive product)"""
import datetime
import re
import zoneinfo

from mc import engine, ref, ops, sub
from mc.engine import Viol

PROP = "C16"
ZONES = ["UTC", "Etc/GMT-5", "Etc/GMT+8", "Asia/Kolkata", "Europe/Berlin", "America/New_York", "Australia/Sydney", "Pacific/Chatham",
         "Australia/Lord_Howe", "Europe/Dublin", "Africa/Casablanca", "America/St_Johns", "America/Sao_Paulo",
         # zones whose offset had a seconds part within living memory (Monrovia -0:44:30 until 1972, Amsterdam +0:19:32 until 1937)
         "Africa/Monrovia", "Europe/Amsterdam"]
YEAR = 2021
LINKED_SIZE = 4321
ISO = re.compile(r"^\d{4}-\d\d-\d\dT\d\d:\d\d:\d\d(\.\d{1,6})?([+-]\d\d:\d\d|Z)$")
UTC = datetime.timezone.utc


def transitions(zone, year=YEAR):
    z = zoneinfo.ZoneInfo(zone)
    t0 = int(datetime.datetime(year, 1, 1, tzinfo=UTC).timestamp())
    t1 = int(datetime.datetime(year + 1, 1, 1, tzinfo=UTC).timestamp())
    off = lambda t: datetime.datetime.fromtimestamp(t, z).utcoffset()
    out = []
    t = t0
    step = 6 * 3600
    while t < t1:
        if off(t) != off(t + step):
            lo, hi = t, t + step
            while hi - lo > 1:
                mid = (lo + hi) // 2
                if off(mid) == off(lo):
                    lo = mid
                else:
                    hi = mid
            out.append(hi)     # first second with the new offset
        t += step
    return out


def instants(zone):
    base = [int(datetime.datetime(YEAR, 1, 15, 12, 0, 0, tzinfo=UTC).timestamp()),
            int(datetime.datetime(YEAR, 7, 15, 12, 0, 0, tzinfo=UTC).timestamp())]
    for t in transitions(zone):
        base += [t - 1, t + 1]
    return sorted(set(base))


def parse_iso(text):
    if not ISO.match(text or ""):
        return None
    return datetime.datetime.fromisoformat(text.replace("Z", "+00:00"))


def eval_case(ctx, case):
    zone, now, mtime, sizes = case["zone"], case["now"], case["mtime"], case["sizes"]
    z = zoneinfo.ZoneInfo(zone)
    v = []
    off_now = datetime.datetime.fromtimestamp(now, z).utcoffset()
    off_m = datetime.datetime.fromtimestamp(mtime, z).utcoffset()
    sig = {"dst_differs": off_now != off_m, "fixed_zone": len(case.get("trans", [1])) == 0}

    def V(kind, detail, **extra):
        v.append(Viol(PROP, kind, dict(sig, **extra), f"[zone {zone}, now {now}, mtime {mtime}] " + detail, case))

    tree = {f"f{n}.bin": b"\x00" * n for n in sizes}
    tree["d"] = None
    tree["d/inner.txt"] = b"x"
    # two more files whose times are exactly one hour later / earlier: around the end of daylight saving time they show the
    # same wall-clock reading as the others, in the other pass of the repeated hour
    tree["h-later.bin"] = b"l"
    tree["h-earlier.bin"] = b"e"
    mt = {p: mtime + 0.25 for p in tree}
    mt["h-later.bin"] += 3600
    mt["h-earlier.bin"] -= 3600
    mt[""] = mtime + 0.25
    # a file that is reached through a symbolic link is hashed through the link: its record describes the file that was hashed
    import os
    sub.materialise(ctx.root, tree, mtimes=mt)
    target = os.path.join(ctx.base, "link-target.bin")
    with sub.REAL["open"](target, "wb") as f:
        f.write(b"\x01" * LINKED_SIZE)
    os.utime(target, (mtime + 0.25, mtime + 0.25))
    os.symlink(target, os.path.join(ctx.root, "linked.bin"))
    os.utime(os.path.join(ctx.root, "linked.bin"), (mtime - 86400 * 40, mtime - 86400 * 40), follow_symlinks=False)
    os.utime(ctx.root, (mtime + 0.25, mtime + 0.25))
    sub.set_tz(zone)
    try:
        res, post = ops.run_cmd(ctx, tree, ops.create("", ["md5"]), now + 0.25, mtimes=mt, tz=zone, keep=True)
    finally:
        sub.set_tz("UTC")
        os.remove(target)
    if res.exit != 0 or res.exc:
        V("create-fails", f"exit {res.exit} {res.exc}")
        return v
    gens = ref.generations(post, "")
    if len(gens) != 1:
        V("no-manifest", f"{len(gens)} manifests")
        return v
    want_name = datetime.datetime.fromtimestamp(now, UTC).strftime("%Y-%m-%d_%H%M%SZ")
    if gens[0]["time"] != want_name:
        V("filename-time", f"manifest name carries {gens[0]['time']}, UTC time is {want_name}")
    m = ref.read_manifest(gens[0]["bytes"])

    def check_date(what, text, instant, tol):
        d = parse_iso(text)
        if d is None:
            V("date-format", f"{what} {text!r} is not a well-formed ISO-8601 date-time with offset", what=what)
            return
        want_off = datetime.datetime.fromtimestamp(instant, z).utcoffset()
        if want_off.seconds % 60:
            # an offset with a seconds part (local mean time) has no ISO-8601 / xs:dateTime form: the nearest whole minute stands for it
            want_off = datetime.timedelta(minutes=round(want_off.total_seconds() / 60))
        err = abs(d.timestamp() - instant)
        import math
        # at the resolution of whole seconds the correct value is the second that contains the instant (or, for a writer that
        # rounds, the nearest one); the fractions used here (.25) make both the same second - also for instants before 1970
        if err >= tol or (d.microsecond == 0 and d.timestamp() not in (math.floor(instant), round(instant))):
            V("date-instant", f"{what} {text} denotes an instant {d.timestamp() - instant:+.0f} s away from the true one "
              f"({datetime.datetime.fromtimestamp(instant, z).isoformat()})", what=what, off_by_hour=abs(err - 3600) < 2 or abs(err - 1800) < 2)
        elif d.utcoffset() != want_off:
            V("date-offset", f"{what} {text} carries offset {d.utcoffset()} but {want_off} was in force at that instant", what=what)

    check_date("creationdate", m["creationdate"], now + 0.25, 1.0)
    for rec in m["records"]:
        if rec["kind"] == "file" and rec["path"] == "linked.bin":
            if rec["size"] != str(LINKED_SIZE):
                V("size-wrong", f"linked.bin (a link to a file of {LINKED_SIZE} bytes, hashed through the link) recorded size {rec['size']!r}", linked=True)
        if rec["kind"] == "file" and rec["path"].startswith("f"):
            n = int(rec["path"][1:-4])
            if rec["size"] is None:
                V("size-missing", f"{rec['path']} ({n} bytes) has no size attribute", size0=n == 0)
            elif rec["size"] != str(n):
                V("size-wrong", f"{rec['path']} ({n} bytes) recorded size {rec['size']!r}")
        if rec["lastmod"] is None:
            V("lastmod-missing", f"{rec['path']} has no lastmodificationdate", kind=rec["kind"])
        else:
            check_date("lastmodificationdate", rec["lastmod"], mt.get(rec["path"], mtime + 0.25), 1.0)
        for h in rec["hashes"] or rec["content"]:
            if h["hashdate"] is None:
                V("hashdate-missing", f"{rec['path']} {h['format']} has no hashdate")
            else:
                check_date("hashdate", h["hashdate"], now + 0.25, 1.0)
    # dates that are READ from a manifest and written again keep their instant: the history is flattened in another zone
    other = "Asia/Tokyo" if zone not in ("Asia/Tokyo", "Etc/GMT-9") else "America/St_Johns"
    dest = ctx.fresh("c16dest")
    sub.materialise(ctx.root, post)
    r = ctx.run("flatten", [ctx.root, dest], now=now + 500, tz=other)
    out = sub.readback(dest)
    pls = [p for p in out if p.endswith(".mhl")]
    if r.exit != 0 or r.exc or len(pls) != 1:
        V("flatten-fails", f"flatten in zone {other}: exit {r.exit} {r.exc}, destination {sorted(out)[:4]}")
        return v
    fm = ref.read_manifest(out[pls[0]])
    for rec in fm["records"]:
        for h in rec["hashes"]:
            d = parse_iso(h["hashdate"]) if h["hashdate"] else None
            if d is None or abs(d.timestamp() - (now + 0.25)) >= 1.0:
                V("date-instant", f"flatten in zone {other}: hashdate of {rec['path']} ({h['format']}) is {h['hashdate']}, the digest was made at "
                  f"{datetime.datetime.fromtimestamp(now + 0.25, z).isoformat()}", what="flattened-hashdate",
                  off_by_hour=False)
                break
    return v


def work(ctx, case):
    return eval_case(ctx, case)


def main(tier, seed):
    eng = engine.Engine(PROP, tier, seed, "exploration")
    engine.selftest(eng)
    zones = list(ZONES)
    if tier == "thorough":
        for zn in sorted(zoneinfo.available_timezones()):
            if zn in zones or zn.startswith(("posix/", "right/")) or zn in ("localtime", "Factory"):
                continue
            try:
                if transitions(zn):
                    zones.append(zn)
            except Exception:
                pass
    cases = []
    for zn in zones:
        ins = instants(zn)
        tr = transitions(zn)
        for now in ins:
            # file times before 1970 (negative time stamps) on top: one second before the epoch, 1938, and the epoch itself
            for mtime in ins + ([-1, 0, -1000000000 - 7] if zn in ZONES and now in ins[:2] else []):
                cases.append({"zone": zn, "now": now, "mtime": mtime, "trans": tr,
                              "sizes": [0, 1, (1 << 20) + 1] if zn in ZONES and now == ins[0] else [0, 1]})
    # days on which the ISO week-numbering year differs from the calendar year, the last second of a year, a leap day
    import calendar
    for zn in ("UTC", "Pacific/Chatham", "America/St_Johns"):
        for ymd in ((2024, 12, 30, 12, 0, 0), (2027, 1, 1, 0, 0, 1), (2025, 12, 31, 23, 59, 59), (2024, 2, 29, 12, 0, 0)):
            cases.append({"zone": zn, "now": calendar.timegm(ymd + (0, 0, 0)), "mtime": instants(zn)[0], "trans": transitions(zn), "sizes": [0, 1]})
    res = eng.pmap(work, cases)
    distinct = set()
    for case, vs in zip(cases, res):
        eng.add_viols(vs)
        z = zoneinfo.ZoneInfo(case["zone"])
        side = (datetime.datetime.fromtimestamp(case["now"], z).utcoffset() != datetime.datetime.fromtimestamp(case["mtime"], z).utcoffset())
        eng.outcome(("dst-differs" if side else "same-offset", "viol" if vs else "ok"))
        distinct.add((case["zone"], case["now"], case["mtime"]))
    for c in cases[:: max(1, len(cases) // 5)]:
        eng.sample({k: c[k] for k in ("zone", "now", "mtime", "sizes")})
    cov = {"evaluations": len(cases), "distinct_nontrivial": len(distinct), "exhaustive": True, "zones": len(zones),
           "rule": "product zone x now x mtime x sizes: zones {UTC, fixed +5, fixed -8, +5:30, Berlin, New York, Sydney, Chatham} "
                   "(thorough: every zone of the system tz database with a transition in 2021); now and mtime each in {mid-January, "
                   "mid-July, 1 s before / after each transition of 2021}; sizes {0, 1, 1 MiB+1} and a file reached through a symbolic link (its own mtime 40 days older); every history flattened in another zone (hash dates keep their instants); every seal with TZ set + tzset() "
                   "and a virtual clock; size attribute == real size, every date well-formed ISO-8601, true instant (within 1 s), "
                   "offset == zoneinfo offset at that instant, manifest name == UTC time"}
    eng.assumptions.append("zoneinfo + the system tz database are the reference for offsets")
    return eng.finish(cov, eval_case)


def replay(path):
    return engine.replay_file(path, eval_case, PROP)
