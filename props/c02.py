"""C02 - a sealed generation records exactly the tree that is on disk (engine E1, model checking)"""
import itertools
import os

from mc import engine, ref, ops
from mc.engine import Viol
from props import e1

PROP = "C02"
DIR = None

POOL = [("a.txt", b"A-content"), ("e.dat", b""), ("emp", DIR), ("sp ace.txt", b"space"), ("ü.bin", b"\xff\x00uml"),
        ("x&<>\"'.txt", b"xmlspecial"), ("d", DIR), ("d/f.txt", b"F-content"), ("d/s", DIR), ("d/s/g.txt", b"G-content"),
        ("d/s/t", DIR), ("d/s/t/h.txt", b"H-content"), ("dd", DIR), ("dd/q.txt", b"Q-content"), ("d.bak", b"prefix-named file"),
        ("d/a.txt", b"same relative path as a.txt once d is a history of its own")]
POOL_T = [("a.txt", b"A-content"), ("x.tmp", b"tmp1"), ("d", DIR), ("d/f.txt", b"F-content"), ("d/y.tmp", b"tmp2"), ("sub", DIR),
          ("sub/s.txt", b"S"), ("d/sub", DIR), ("d/sub/t.tmp", b"tmp3"), ("keep.tmp.txt", b"not a tmp")]
POOL_X = POOL + [("ls\u2028ep.txt", b"linesep"), ("d/é è", DIR), ("d/é è/\U0001F3AC.mov", b"astral"),
                 ("ascmhl_notes.txt", b"not a history file"), ("clip.mhl", b"a media file that ends in .mhl"), (".hidden", b"dot file"),
                 ("my.ascmhl", DIR), ("my.ascmhl/inner.txt", b"inside a folder whose name contains ascmhl"),
                 ("emp/emp2", DIR), ("0001_root_2020-01-01_000000Z.mhl", b"media file named like a manifest"),
                 (".hid", DIR), (".hid/in.txt", b"in a hidden folder"), ("e\u0301.txt", b"decomposed name"), ("back\\slash.txt", b"backslash"),
                 (" lead", b"leading blank"), ("trail ", DIR), ("trail /t.txt", b"in a folder with a trailing blank"),
                 # names that OTHER tools ignore by default - this one only excludes .DS_Store and its own ascmhl folders
                 ("Thumbs.db", b"windows thumbnails"), ("._a.txt", b"AppleDouble twin"), (".git", DIR), (".git/config", b"[core]"),
                 ("desktop.ini", b"[.ShellClassInfo]"), ("x.tmp~", b"editor backup")]
# sizes around the 1 MiB block in which files are read (contents without a period that divides the block size)
_RAMP = bytes((i * 7 + i // 251) % 256 for i in range(65521))
MIB = 1 << 20
POOL_S = [("m0.bin", (_RAMP * 17)[:MIB - 1]), ("m1.bin", (_RAMP * 17)[:MIB]), ("m2.bin", (_RAMP * 17)[:MIB + 1]),
          ("d", DIR), ("d/m3.bin", (_RAMP * 40)[:2 * MIB + 17]), ("d/m4.bin", (_RAMP * 40)[:2 * MIB])]
FSETS = [["xxh64"], ["c4", "md5"], list(ref.FORMATS_CLI)]


def pool_of(meta):
    return POOL_S if meta.get("pool") == "s" else POOL_X if meta.get("pool") == "x" else (POOL_T if meta.get("pool") == "t" else POOL)


def closed_subsets(pool, k):
    names = [p for p, _ in pool]
    cont = dict(pool)
    out = []
    for n in range(0, k + 1):
        for c in itertools.combinations(names, n):
            s = set(c)
            if all(ref.parent(p) == "" or ref.parent(p) in s for p in c):
                out.append({p: cont[p] for p in c})
    return out


# ------------------------------------------------------------------ alphabet

def enabled(tree, meta):
    out = []
    med = ref.media(tree)
    g, mg = meta["gens"], meta["max_gens"]
    if g < mg:
        cont = g + 1 < mg
        m2 = dict(meta, gens=g + 1)
        for fs in FSETS:
            out.append((ops.create("", fs), m2, cont))
        out.append((ops.create("", ["xxh64"], n=True), m2, cont))
        out.append((ops.create("", ["md5"], slash=True), m2, cont))   # ROOT/ as tab completion writes it
        out.append((ops.create("", ["md5", "xxh64", "md5"]), m2, cont))   # a format requested twice
        if meta.get("pool") == "t":
            # (with a separator: anchored at the root - three levels deep, and a root-level twin of a deeper path)
            for ps in (["*.tmp"], ["sub/"], ["x.tmp", "sub"], ["d/sub/t.tmp"], ["sub/s.txt", "sub/t.tmp"], ["*.tmp", "!x.tmp"]):
                out.append((ops.create("", ["md5"], i=ps), m2, cont))
            if "d" in med:
                out.append((ops.create("", ["md5"], i=["*.tmp"], sf=["d"]), m2, cont))
        if meta.get("rich"):
            out.append((ops.create("", ["c4", "md5"], n=True), m2, cont))
        for d in sorted(p for p, v in med.items() if v is DIR):
            out.append((ops.create(d, ["md5"]), m2, cont))
        ents = sorted(med)
        sels = [[e] for e in ents] + ([list(c) for c in itertools.combinations(ents, 2)] if meta.get("sf2", True) else [])
        for sel in sels:
            out.append((ops.create("", ["xxh64"], sf=sel), m2, cont))
    if 1 <= g < mg and meta["edits"] < meta["max_edits"]:
        m3 = dict(meta, edits=meta["edits"] + 1)
        for p, c in pool_of(meta):
            if p not in med and (ref.parent(p) == "" or med.get(ref.parent(p), 1) is DIR and ref.parent(p) in med):
                out.append((["write", p, c] if c is not DIR else ["mkdir", p], m3, True))
        for p in sorted(med):
            out.append((["rm", p], m3, True))
    return out


# ------------------------------------------------------------------ oracle

def new_manifests(pre, post):
    return sorted(p for p in post if p.endswith(".mhl") and p not in pre and ref.is_in_ascmhl(p) and post[p] is not DIR)


def hroot_of(manifest_path):
    i = manifest_path.rfind("ascmhl/")
    return manifest_path[:i].rstrip("/")


def recorded(pre, post):
    """[(full relpath, kind, record, manifest path)] over all manifests written by the run, and path errors"""
    out, bad = [], []
    for mp in new_manifests(pre, post):
        hr = hroot_of(mp)
        m = ref.read_manifest(post[mp])
        for rec in m["records"]:
            p = rec["path"]
            if p is None or p.startswith("/") or p in ("", ".") or ".." in p.split("/") or "//" in p \
                    or p.endswith("/") or p.startswith("./"):
                bad.append((mp, p))
                continue
            out.append(((hr + "/" + p) if hr else p, rec["kind"], rec, mp))
    return out, bad


def judge(pre, op, post, res, obs, meta):
    if op[0] != "create":
        return []
    o = op[1]
    R = o.get("root", "")
    sf = o.get("sf")
    mode = "sf" if sf else ("folder-n" if o.get("n") else "folder")
    nested = any(r != R for r in ref.history_roots(pre) if r == R or r.startswith(R + "/") or R == "")
    sig = {"mode": mode, "nested": bool(nested)}
    v = []

    def V(kind, detail, **extra):
        v.append(Viol(PROP, kind, dict(sig, **extra), detail))

    med = ref.media(pre)
    # exit 30 is the documented answer when a nested history that the latest generation references has been removed
    # from disk (the generation is still written); everything else outside 0 / 10 / 11 is an abort
    allowed = {0, 10, 11}
    gens_r = ref.generations(pre, R)
    if gens_r:
        for r in ref.read_manifest(gens_r[-1]["bytes"])["references"]:
            child_ascmhl = ((R + "/") if R else "") + "/".join(r["path"].split("/")[:-1])
            if child_ascmhl not in pre:
                allowed.add(30)
    if res.exc is not None or res.exit not in allowed:
        V("abort", f"{ops.label(op)}: exit {res.exit} exc {res.exc} tb {res.tb}\n{res.err[-300:]}",
          exc=(res.exc or "").split(":")[0], where=res.tb[-1][1] if res.tb else None)
        return v
    below = {p: c for p, c in med.items() if (R == "" or p.startswith(R + "/"))}
    from props import c12
    pats = c12.effective(pre, o)[0]   # latest generation of the history at R + command line (+ the defaults)
    if sf:
        exp = set()
        for s in sf:
            if med.get(s, 0) is DIR:
                for p, c in med.items():
                    if p.startswith(s + "/") and c is not DIR and not ref.ignored(pats, p[len(R) + 1:] if R else p, False):
                        exp.add((p, "file"))
            else:
                exp.add((s, "file"))
    else:
        exp = {(p, "dir" if c is DIR else "file") for p, c in below.items()
               if not ref.ignored(pats, p[len(R) + 1:] if R else p, c is DIR)}
    got, bad = recorded(pre, post)
    for mp, p in bad:
        V("bad-path", f"record path {p!r} in {mp} is not a clean relative POSIX path")
    gotset = {}
    for full, kind, rec, mp in got:
        gotset.setdefault((full, kind), []).append(mp)
    for key, mps in gotset.items():
        if len(mps) > 1:
            V("duplicate-record", f"{key} recorded {len(mps)} times: {mps}", what=key[1])
    missing = sorted(exp - set(gotset))
    extra = sorted(set(gotset) - exp)
    if missing:
        kinds = sorted({k for _, k in missing})
        V("missing-record", f"{ops.label(op)}: on disk but not recorded: {missing}", what="+".join(kinds),
          special=special_of([p for p, _ in missing]))
    if extra:
        kinds = sorted({k for _, k in extra})
        V("extra-record", f"{ops.label(op)}: recorded but not expected: {extra}", what="+".join(kinds),
          special=special_of([p for p, _ in extra]))
    for full, kind, rec, mp in got:
        if kind != "file" or full not in med or med[full] is DIR:
            continue
        have = {h["format"] for h in rec["hashes"]}
        for h in rec["hashes"]:
            want = ref.digest(h["format"], med[full])
            if h["digest"] != want:
                V("digest-wrong", f"{full} {h['format']}: recorded {h['digest']}, bytes hash to {want}", fmt=h["format"])
        lack = [f for f in o.get("fmts", []) if f not in have]
        if lack:
            V("format-missing", f"{full}: requested {o.get('fmts')} but record has {sorted(have)}")
    return v


def special_of(paths):
    s = set()
    for p in paths:
        if "\u2028" in p or "\u2029" in p:
            s.add("linesep")
    return "+".join(sorted(s)) or None


def classify(pre, op, post, res):
    return len(new_manifests(pre, post))


eval_case = e1.eval_case


def main(tier, seed):
    eng = engine.Engine(PROP, tier, seed, "model_checking")
    engine.selftest(eng)
    if tier == "quick":
        plans = [dict(k=3, max_gens=2, max_edits=0, pool="p", sf2=False), dict(k=2, max_gens=2, max_edits=1, pool="p"),
                 dict(k=3, max_gens=2, max_edits=0, pool="t", sf2=False), dict(k=2, max_gens=2, max_edits=0, pool="x", sf2=False)]
    else:
        plans = [dict(k=3, max_gens=3, max_edits=0, pool="p", sf2=False), dict(k=3, max_gens=2, max_edits=1, pool="p"),
                 dict(k=4, max_gens=2, max_edits=0, pool="p", sf2=False),
                 dict(k=3, max_gens=2, max_edits=0, pool="x", rich=True), dict(k=3, max_gens=2, max_edits=1, pool="t", sf2=False),
                 dict(k=4, max_gens=2, max_edits=0, pool="t", sf2=False)]
    # the twins a.txt / d/a.txt (same history-relative path once d has its own history) with every -sf pair
    plans.append(dict(k=3 if tier == "quick" else 4, max_gens=2, max_edits=0, pool="p", only=["a.txt", "d/a.txt"]))
    # the tree reached through a symbolic link to the root (every path of the command line goes through the link)
    plans.append(dict(k=2 if tier == "quick" else 3, max_gens=2, max_edits=0, pool="p", spell="symlink"))
    # ... and as <link>/../<folder>
    plans.append(dict(k=2, max_gens=1 if tier == "quick" else 2, max_edits=0, pool="p", spell="dotdot"))
    # files larger than / exactly as large as the block in which they are read
    plans.append(dict(k=2, max_gens=1 if tier == "quick" else 2, max_edits=0, pool="s", sf2=False))
    if os.environ.get("VERIF_ONLY_PLAN"):   # (timing aid when tuning bounds)
        plans = [plans[int(os.environ["VERIF_ONLY_PLAN"])]]
    tot = {"states": 0, "transitions": 0}
    runs = []
    for pl in plans:
        pool = pool_of(pl)
        trees = closed_subsets(pool, pl["k"])
        if pl["pool"] == "x":  # only the trees that use at least one extended name
            extra = {p for p, _ in POOL_X[len(POOL):]}
            trees = [t for t in trees if extra & set(t)]
        if pl.get("only"):
            trees = [t for t in trees if all(x in t for x in pl["only"])]
        meta = dict(alpha="c02", oracles=["c02"], gens=0, edits=0, **{k: v for k, v in pl.items() if k != "only"})
        r = engine.bfs(eng, e1.expand, [(t, meta, "tree:" + ",".join(sorted(t))) for t in trees],
                       max_depth=pl["max_gens"] + pl["max_edits"], label=ops.label)
        runs.append(dict(pl, initial_trees=len(trees), **r))
        tot["states"] += r["states"]
        tot["transitions"] += r["transitions"]
    cov = {"states": tot["states"], "transitions": tot["transitions"], "traces_validated_against_impl": tot["transitions"],
           "exhaustive": True, "runs": runs,
           "rule": "initial states = all parent-closed subsets (size<=k) of a path pool (plain, empty file, empty dir, space, "
                   "non-ASCII, XML-special, depth 3); transitions = real create (3 format sets, -n, create at every "
                   "sub-directory = nested history, every -sf selection of <=2 entries) and add/remove edits; every create "
                   "judged: records of the manifests written by the run == non-ignored entries on disk, exactly once, "
                   "clean relative POSIX paths, reference digests in every requested format"}
    eng.assumptions += ["no symlinks / special files / names outside XML 1.0; contents are never altered between generations "
                        "(that interaction belongs to C04)", "user patterns only in the plan with pool 't' (alphabet {*.tmp, sub/, x.tmp, sub}; matcher shared with C12)"]
    return eng.finish(cov, eval_case)


def replay(path):
    return engine.replay_file(path, eval_case, PROP)
