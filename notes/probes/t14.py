from h import *
import re, hashlib
from lxml import etree
import ascmhl.hasher as H
def fresh(files):
    root = tempfile.mkdtemp(dir='/dev/shm'); mk(root, files); return root
def snap(root):
    out={}
    for dp,dn,fn in os.walk(root):
        for d in dn: 
            p=os.path.join(dp,d); st=os.lstat(p); out[os.path.relpath(p,root)+'/']=('d',st.st_mtime_ns,st.st_mode)
        for f in fn:
            p=os.path.join(dp,f); st=os.lstat(p); out[os.path.relpath(p,root)]=('f',open(p,'rb').read(),st.st_mtime_ns,st.st_mode)
    st=os.lstat(root); out['./']=('d',st.st_mtime_ns,st.st_mode)
    return out
def diffsnap(a,b):
    return {k:('+' if k not in a else '-' if k not in b else '~') for k in set(a)|set(b) if a.get(k)!=b.get(k)}
root=fresh({'a.txt':'a','d/b.txt':'b','d/e/c.txt':'c'})
run(C.create,[root+'/d','-h','md5']); 
s0=snap(root)
r=run(C.create,[root,'-h','xxh64']); s1=snap(root); print('create', r.exit_code, diffsnap(s0,s1))
for cmd,args in [('verify',[root]),('verify',[root,'-dh']),('verify',[root,'-sf',root+'/a.txt']),('diff',[root]),('info',[root]),('info',['-sf',root+'/a.txt']),('hash',[root+'/a.txt','-h','md5']),('verify',[root,'-dh','-co'])]:
    r=run(getattr(C,cmd),args); s2=snap(root); print(cmd,args[1:],r.exit_code,diffsnap(s1,s2))
# tamper: every manifest, several edits, all commands
import itertools
mans=[k for k in s1 if k.endswith('.mhl')]
print(mans)
dest=tempfile.mkdtemp(dir='/dev/shm')
cmds=[('create',[root,'-h','md5']),('create',[root,'-h','md5','-sf',root+'/a.txt']),('verify',[root]),('verify',[root,'-dh']),('diff',[root]),('info',[root]),('info',[root,'-sf',root+'/a.txt']),('flatten',[root,dest])]
for m in mans:
    orig=open(root+'/'+m,'rb').read()
    for kind,new in [('flip',orig[:100]+bytes([orig[100]^1])+orig[101:]),('nl',orig+b'\n'),('trunc',orig[:-1]),('del',None)]:
        if new is None: os.remove(root+'/'+m)
        else: open(root+'/'+m,'wb').write(new)
        sb=snap(root); codes=[]
        for cmd,args in cmds:
            r=run(getattr(C,cmd),args); codes.append(r.exit_code)
        sa=snap(root)
        print(m[-40:],kind,codes, 'unchanged' if sa==sb and not os.listdir(dest) else ('CHANGED',diffsnap(sb,sa),os.listdir(dest)))
        open(root+'/'+m,'wb').write(orig)
shutil.rmtree(root); shutil.rmtree(dest)
