from h import *
import re
def fresh(files):
    root = tempfile.mkdtemp(dir='/dev/shm'); mk(root, files); return root
def recs(root, sub=''):
    d=os.path.join(root,sub,'ascmhl'); out=[]
    for f in sorted(x for x in os.listdir(d) if x.endswith('.mhl')):
        t=open(os.path.join(d,f)).read()
        out.append((f[:4], re.findall(r'<path[^>]*>(.*?)</path>|<previousPath>(.*?)</previousPath>',t)))
    return out
print('--- two simultaneous renames + move across dirs + new file')
root=fresh({'a.txt':'a','b.txt':'b','d/c.txt':'c','e/':''})
print(run(C.create,[root,'-h','md5']).exit_code)
os.rename(root+'/a.txt',root+'/a2.txt'); os.rename(root+'/b.txt',root+'/e/b.txt'); os.rename(root+'/d/c.txt',root+'/c.txt'); mk(root,{'n.txt':'n'})
r=run(C.create,[root,'-h','md5']); print('create no -dr', r.exit_code, r.stderr.strip().replace('\n',' | '))
shutil.rmtree(root)
root=fresh({'a.txt':'a','b.txt':'b','d/c.txt':'c','e/':''})
print(run(C.create,[root,'-h','md5']).exit_code)
os.rename(root+'/a.txt',root+'/a2.txt'); os.rename(root+'/b.txt',root+'/e/b.txt'); os.rename(root+'/d/c.txt',root+'/c.txt'); mk(root,{'n.txt':'n'})
r=run(C.create,[root,'-h','md5','-dr']); print('create -dr'); show(r)
for x in recs(root): print(x)
for cmd,args in [('verify',[root]),('diff',[root]),('create',[root,'-h','md5']),('verify',[root])]:
    r=run(getattr(C,cmd),args); print(cmd, r.exit_code, r.stderr.strip().replace('\n',' | '))
open(root+'/a2.txt','w').write('changed')
r=run(C.verify,[root]); print('verify after change of renamed', r.exit_code, r.stderr.strip()[:200])
shutil.rmtree(root)
print('--- -dr with different format than recorded')
root=fresh({'a.txt':'a','b.txt':'b'})
print(run(C.create,[root,'-h','md5']).exit_code)
os.rename(root+'/a.txt',root+'/a2.txt')
r=run(C.create,[root,'-h','xxh64','-dr']); show(r)
for x in recs(root): print(x)
for cmd,args in [('verify',[root]),('diff',[root]),('create',[root,'-h','md5']),('verify',[root])]:
    r=run(getattr(C,cmd),args); print(cmd, r.exit_code, r.stderr.strip().replace('\n',' | '))
shutil.rmtree(root)
