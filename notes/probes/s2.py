# spike: controlled scheduling of the real Updater thread vs main via settrace + baton; virtual join timeout; env answers
import sys, os, threading, importlib, time, json, tempfile, shutil
import requests
from click.testing import CliRunner
WATCH=('ascmhl/cli/update.py','ascmhl/cli/ascmhl.py','ascmhl/cli/ascmhl_debug.py')
class Kill(BaseException): pass
class Sched:
    def __init__(s, choices):
        s.choices=list(choices); s.taken=[]; s.points=[]   # points: list of (enabled list)
        s.cv=threading.Condition(); s.current='main'; s.state={'main':'run'}  # run|blocked_join|blocked_net|done
        s.vtime=0.0; s.join_timeout=None; s.net_answer=None; s.killed=False; s.trace=[]
    def enabled(s):
        en=[]
        for t,st in s.state.items():
            if st=='run': en.append(t)
        if s.state.get('upd')=='blocked_net' and s.net_ready: en.append('net')         # env: response arrives
        if s.state.get('main')=='blocked_join':
            if s.state.get('upd')=='done': en.append('joinret')
            elif s.join_timeout is not None: en.append('timeout')
        # canonical order: current first
        en.sort(key=lambda x:(x!=s.current, x)); return en
    def point(s, me, label):
        # called by thread `me` holding the baton; decide who runs next
        with s.cv:
            s.trace.append((me,label))
            s._dispatch()
            while s.current!=me and not s.killed: s.cv.wait()
            if s.killed and s.current!=me: raise Kill()
    def _dispatch(s):
        while True:
            en=s.enabled()
            if not en: s.current=None; s.deadlock=True; s.killed=True; s.cv.notify_all(); return
            i=s.choices.pop(0) if s.choices else 0
            s.taken.append(i); s.points.append(en)
            c=en[i]
            if c=='net': s.state['upd']='run'; s.trace.append(('env','net')); continue
            if c=='timeout': s.vtime+=s.join_timeout; s.state['main']='run'; s.trace.append(('env','timeout')); continue
            if c=='joinret': s.state['main']='run'; continue
            s.current=c; s.cv.notify_all(); return
def run_one(choices, answer, net_ready=True):
    S=Sched(choices); S.net_ready=net_ready; S.deadlock=False
    def tracer(frame, event, arg):
        fn=frame.f_code.co_filename
        if not fn.endswith(WATCH): return None
        def local(frame, event, arg):
            if event=='line':
                me='upd' if threading.current_thread().name.startswith('UPD') else 'main'
                S.point(me,(os.path.basename(fn),frame.f_lineno))
            return local
        return local
    def fake_get(url, **kw):
        S.state['upd']='blocked_net'; S.point('upd','net-wait')
        return answer()
    import ascmhl.cli.update as U
    real_get=requests.get; requests.get=fake_get
    threading.settrace(tracer); sys.settrace(tracer)
    try:
        importlib.reload(U)
        def vjoin(self, timeout=None):
            if S.state.get('upd')=='done': return
            S.join_timeout=timeout; S.state['main']='blocked_join'; S.point('main','join')
        U.Updater.join=vjoin
        orig_run=U.Updater.run
        def run(self):
            threading.current_thread().name='UPD'
            with S.cv:
                S.state['upd']='run'
                while S.current!='upd' and not S.killed: S.cv.wait()
            try:
                if not S.killed: orig_run(self)
            except Kill: pass
            finally:
                with S.cv:
                    S.state['upd']='done'
                    if not S.killed: S._dispatch()
        U.Updater.run=run
        S.state['upd']='new'
        import ascmhl.cli.ascmhl_debug as D
        importlib.reload(D)
        r=CliRunner(mix_stderr=False).invoke(D.mhldebugtool_cli,['hash',ROOT+'/a.txt','-h','md5'])
    finally:
        sys.settrace(None); threading.settrace(None); requests.get=real_get
        with S.cv: S.killed=True; S.cv.notify_all()
    return S, r
class Resp:
    def __init__(s, body): s.body=body
    def raise_for_status(s): pass
    def json(s): return json.loads(s.body)
ROOT=tempfile.mkdtemp(dir='/dev/shm'); open(ROOT+'/a.txt','w').write('a')
def explore(answer, net_ready, bound=99):
    seen=0; outcomes={}; stack=[[]]
    t=time.time()
    while stack:
        prefix=stack.pop()
        S,r=run_one(prefix, answer, net_ready)
        seen+=1
        key=(r.exit_code, r.stdout.count('Please update'), S.vtime, S.deadlock)
        outcomes[key]=outcomes.get(key,0)+1
        for i in range(len(prefix), len(S.points)):
            for alt in range(1,len(S.points[i])):
                stack.append(S.taken[:i]+[alt])
    print('executions',seen,'%.1fs'%(time.time()-t),outcomes)
S,r=run_one([], lambda: Resp('{"tag_name":"v9.9.9"}'), True); print(r.exit_code, repr(r.stdout), S.trace, S.points); sys.stdout.flush()
explore(lambda: Resp('{"tag_name":"v9.9.9"}'), True)
explore(lambda: Resp('{"tag_name":"v9.9.9"}'), False)
shutil.rmtree(ROOT)
