from h import *
from lxml import etree
X = etree.XMLSchema(etree.parse('/repo/xsd/ASCMHL.xsd'))
XD = etree.XMLSchema(etree.parse('/repo/xsd/ASCMHLDirectory__combined.xsd'))
def validate_all(root):
    for dp, dn, fn in os.walk(root):
        for f in fn:
            p=os.path.join(dp,f)
            if f.endswith('.mhl'):
                ok = X.validate(etree.parse(p)); 
                if not ok: print('INVALID', os.path.relpath(p,root), str(X.error_log)[:300])
            elif f in ('ascmhl_chain.xml','ascmhl_collection.xml'):
                ok = XD.validate(etree.parse(p))
                if not ok: print('INVALID', os.path.relpath(p,root), str(XD.error_log)[:300])
def fresh(files):
    root = tempfile.mkdtemp(dir='/dev/shm'); mk(root, files); return root
print('--- empty folder'); root=fresh({}); print(run(C.create,[root]).exit_code); validate_all(root); shutil.rmtree(root)
print('--- empty file + empty dir'); root=fresh({'e.txt':'','ed/':''}); print(run(C.create,[root]).exit_code); validate_all(root); shutil.rmtree(root)
print('--- nested -sf: parent only references')
root=fresh({'a.txt':'a','d/b.txt':'b'})
print(run(C.create,[root+'/d','-h','md5']).exit_code, run(C.create,[root,'-h','md5']).exit_code)
r=run(C.create,[root,'-sf',root+'/d/b.txt','-h','md5']); show(r); validate_all(root)
print(sorted(os.listdir(root+'/ascmhl')), sorted(os.listdir(root+'/d/ascmhl')))
shutil.rmtree(root)
print('--- multi formats + -n + author etc')
root=fresh({'a.txt':'a','d/b.txt':'b'})
r=run(C.create,[root,'-h','md5','-h','c4','-h','xxh64','-h','md5','--author_name','X','--author_email','a@b.c','--location','L','--comment','<&>']); print(r.exit_code); validate_all(root)
r=run(C.create,[root,'-h','sha1','-n','-i','*.tmp']); print(r.exit_code); validate_all(root)
os.rename(root+'/a.txt', root+'/z.txt')
r=run(C.create,[root,'-h','md5','-dr']); show(r); validate_all(root)
dest=tempfile.mkdtemp(dir='/dev/shm')
r=run(C.flatten,[root,dest]); show(r); validate_all(dest); print(os.listdir(dest), [os.listdir(dest+'/'+x) for x in os.listdir(dest)])
shutil.rmtree(root); shutil.rmtree(dest)
print('--- failed verification')
root=fresh({'a.txt':'a','d/b.txt':'b'})
print(run(C.create,[root,'-h','md5']).exit_code); open(root+'/a.txt','w').write('zz'); os.remove(root+'/d/b.txt')
r=run(C.create,[root,'-h','md5']); print(r.exit_code); validate_all(root)
shutil.rmtree(root)
