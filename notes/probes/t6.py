from h import *
from freezegun import freeze_time
import hashlib
def snap(root):
    out={}
    for dp, dn, fn in os.walk(root):
        for f in fn:
            if 'ascmhl' in dp: out[os.path.relpath(os.path.join(dp,f),root)] = open(os.path.join(dp,f),'rb').read()
    return out
def build(base, name='root'):
    root=os.path.join(base,name); os.makedirs(root)
    mk(root, {'a.txt':'a','d/b.txt':'b','d/e/c.txt':'c'})
    for dp,dn,fn in os.walk(root):
        for x in dn+fn: os.utime(os.path.join(dp,x),(1e9,1e9))
    os.utime(root,(1e9,1e9))
    return root
base=tempfile.mkdtemp(dir='/dev/shm')
res={}
for anc in ['plain','ascmhl','x.tmp','.DS_Store']:
    b=os.path.join(base,anc); os.makedirs(b)
    root=build(b)
    with freeze_time("2020-01-15 13:00:00"):
        import platform
        r=run(C.create,[root,'-h','md5','-i','*.tmp'])
        r2=run(C.verify,[root])
        r3=run(C.diff,[root])
    res[anc]=snap(root)
    print(anc, r.exit_code, r2.exit_code, r3.exit_code, {k:hashlib.md5(v).hexdigest()[:8] for k,v in res[anc].items()})
    if r.exit_code: show(r)
print(res['plain']==res['ascmhl'], res['plain']==res['x.tmp'])
import difflib
for anc in ['ascmhl','x.tmp']:
  for k in res['plain']:
    a=res['plain'][k].decode().splitlines(); b=res[anc].get(k,b'').decode().splitlines()
    for l in difflib.unified_diff(a,b,lineterm='',n=0): print(anc, l)
shutil.rmtree(base)
