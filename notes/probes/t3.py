from h import *
import re, time
# C16: empty file size; C09: flat folder
root = tempfile.mkdtemp(dir='/dev/shm')
mk(root, {'a.txt':'a','e.txt':''})
r = run(C.create, [root,'-h','md5']); print('create', r.exit_code)
m=[f for f in os.listdir(root+'/ascmhl') if f.endswith('.mhl')][0]
print(re.findall(r'<path.*', open(root+'/ascmhl/'+m).read()))
r = run(C.verify, [root,'-dh']); print('verify -dh flat unchanged:'); show(r)
open(root+'/a.txt','w').write('b')
r = run(C.verify, [root,'-dh']); print('verify -dh flat, changed a.txt:'); show(r)
r = run(C.verify, [root]); print('verify flat, changed a.txt:', r.exit_code)
shutil.rmtree(root)
# with subdir, change root-level file
root = tempfile.mkdtemp(dir='/dev/shm')
mk(root, {'a.txt':'a','d/b.txt':'b'})
r = run(C.create, [root,'-h','md5']); print('create', r.exit_code)
open(root+'/a.txt','w').write('b')
r = run(C.verify, [root,'-dh']); print('verify -dh, changed root-level a.txt:'); show(r)
open(root+'/a.txt','w').write('a')
open(root+'/d/b.txt','w').write('c')
r = run(C.verify, [root,'-dh']); print('verify -dh, changed d/b.txt:'); show(r)
shutil.rmtree(root)
