from h import *
import re
from lxml import etree
def fresh(files):
    root = tempfile.mkdtemp(dir='/dev/shm'); mk(root, files); return root
names = ['a b.txt', 'ä€😀.txt', 'a&b.txt', 'a<b>.txt', 'q"uo\'te.txt', 'a b.txt', 'a b.txt', ' lead.txt', 'trail ', 'a]]>b', '#x;&amp;', 'tab\there' ]
for n in names:
    root=fresh({n:'x', 'sub '+n+'/in.txt':'y'})
    r=run(C.create,[root,'-h','md5','--comment','c '+n,'--location',n,'--author_name',n])
    m=[f for f in os.listdir(root+'/ascmhl') if f.endswith('.mhl')][0]
    try:
        t=etree.parse(root+'/ascmhl/'+m)
        paths=[e.text for e in t.iter('{urn:ASC:MHL:v2.0}path')]
        comment=[e.text for e in t.iter('{urn:ASC:MHL:v2.0}comment')]
    except Exception as e:
        paths=repr(e); comment=None
    r2=run(C.verify,[root]); r3=run(C.create,[root,'-h','md5'])
    ok = isinstance(paths,list) and n in paths and ('sub '+n+'/in.txt') in paths
    print(repr(n), 'create',r.exit_code,'verify',r2.exit_code,'create2',r3.exit_code, 'OK' if ok else ('BAD', paths), comment==['c '+n])
    shutil.rmtree(root)
