from h import *
import re
def fresh(files):
    root = tempfile.mkdtemp(dir='/dev/shm'); mk(root, files); return root
def dump(p):
    t=open(p).read()
    return re.findall(r'<path[^>]*>.*?</path>|<(?:md5|sha1|xxh64|c4|xxh3|xxh128)[^>]*>[^<]*|<process>.*?</process>|<roothash>|<directoryhash>',t)
print('--- flatten: changing formats, failed entries, -sf partial')
root=fresh({'a.txt':'a','b.txt':'b','d/c.txt':'c'})
print(run(C.create,[root,'-h','md5']).exit_code)
open(root+'/a.txt','w').write('A!')
print(run(C.create,[root,'-h','md5','-h','xxh64']).exit_code)
open(root+'/a.txt','w').write('a')
print(run(C.create,[root,'-h','xxh64','-h','sha1']).exit_code)
mk(root,{'n.txt':'n'})
print(run(C.create,[root,'-h','c4','-sf',root+'/n.txt']).exit_code)
dest=tempfile.mkdtemp(dir='/dev/shm')
r=run(C.flatten,[root,dest]); show(r)
for dp,dn,fn in os.walk(dest):
    for f in fn:
        print(os.path.join(dp,f))
        if f.endswith('.mhl'):
            pl=os.path.join(dp,f)
            for x in dump(pl): print('   ',x)
        else: print(open(os.path.join(dp,f)).read())
r=run(C.verify,[root,'-pl',pl]); print('verify -pl unchanged'); show(r)
open(root+'/b.txt','w').write('B!')
r=run(C.verify,[root,'-pl',pl]); print('verify -pl changed b'); show(r)
r=run(C.flatten,[root,dest]); print('flatten again same second'); show(r)
print(os.listdir(dest+'/'+os.listdir(dest)[0])); print(open(dest+'/'+os.listdir(dest)[0]+'/ascmhl_collection.xml').read())
shutil.rmtree(root); shutil.rmtree(dest)
