from h import *
import re
def fresh(files):
    root = tempfile.mkdtemp(dir='/dev/shm'); mk(root, files); return root
def recs(root):
    out={}
    for dp,dn,fn in os.walk(root):
        if os.path.basename(dp)=='ascmhl':
            for f in sorted(fn):
                if f.endswith('.mhl'):
                    t=open(os.path.join(dp,f)).read()
                    out[os.path.relpath(os.path.join(dp,f),root)]=re.findall(r'<path[^>]*>(.*?)</path>',t)
    return out
print('--- prefix siblings A and AB nested, depth 3')
root=fresh({'r.txt':'r','A/a.txt':'a','AB/ab.txt':'ab','A/B/b.txt':'b','A/B/C/c.txt':'c'})
for sub in ['A/B/C','A/B','AB','A']:
    print(sub, run(C.create,[root+'/'+sub,'-h','md5']).exit_code)
r=run(C.create,[root,'-h','md5']); show(r)
for k,v in sorted(recs(root).items()): print(k,v)
for cmd,args in [('verify',[root]),('diff',[root]),('verify',[root,'-dh']),('create',[root,'-h','md5'])]:
    r=run(getattr(C,cmd),args); print(cmd, args[1:], r.exit_code, repr(r.exception) if r.exception and not isinstance(r.exception,SystemExit) else '', r.stderr.strip().replace('\n',' | ')[:300])
print('--- alter file in deepest nested')
open(root+'/A/B/C/c.txt','w').write('X')
for cmd,args in [('verify',[root]),('diff',[root]),('verify',[root,'-dh']),('create',[root,'-h','md5'])]:
    r=run(getattr(C,cmd),args); print(cmd, args[1:], r.exit_code, repr(r.exception) if r.exception and not isinstance(r.exception,SystemExit) else '', r.stderr.strip().replace('\n',' | ')[:300])
open(root+'/A/B/C/c.txt','w').write('c')
print('--- delete file in nested, add file in nested')
os.remove(root+'/AB/ab.txt'); mk(root,{'A/B/new.txt':'n'})
for cmd,args in [('verify',[root]),('diff',[root]),('create',[root,'-h','md5'])]:
    r=run(getattr(C,cmd),args); print(cmd, args[1:], r.exit_code, repr(r.exception) if r.exception and not isinstance(r.exception,SystemExit) else '', r.stderr.strip().replace('\n',' | ')[:300])
shutil.rmtree(root)
