from h import *
import itertools, re
fmts = ['md5','sha1','xxh128','xxh3','xxh64','c4']
def seq(fsets, alter=None):
    root = tempfile.mkdtemp(dir='/dev/shm')
    mk(root, {'a.txt':'a','e.txt':''})
    out=[]
    for i,fs in enumerate(fsets):
        args=[root]
        for f in fs: args += ['-h', f]
        r = run(C.create, args)
        out.append((r.exit_code, type(r.exception).__name__ if r.exception and not isinstance(r.exception, SystemExit) else None))
    shutil.rmtree(root)
    return out
# all sequences of length 3 over subsets of size<=2 of 3 formats
F=['md5','xxh64','c4']
subs=[s for k in (1,2,3) for s in itertools.combinations(F,k)]
bad={}
for s in itertools.product(subs, repeat=3):
    o=seq(s)
    if any(e!=0 for e,_ in o):
        bad[s]=o
print(len(bad), 'bad of', len(subs)**3)
for k,v in list(bad.items())[:15]: print(k,v)
