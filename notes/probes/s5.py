# spike: write-log seam + crash-state enumeration for create (C15)
import sys, os, io, builtins, time
from h import *
LOG=[]; AUD=[]; ON=[False]
def hook(ev,args):
    if not ON[0]: return
    if ev=='open' and isinstance(args[0],str) and args[0].startswith('/dev/shm/') and (args[2] & (os.O_WRONLY|os.O_RDWR|os.O_CREAT|os.O_TRUNC|os.O_APPEND)): AUD.append(('open_w',args[0]))
    elif ev in ('os.mkdir','os.rename','os.replace','os.remove','os.rmdir','os.utime','os.chmod','os.truncate'): AUD.append((ev,)+tuple(a for a in args if isinstance(a,str)))
sys.addaudithook(hook)
real_open=builtins.open; real_mkdir=os.mkdir; real_replace=os.replace
class WFile:
    def __init__(s,path,f): s.path=path; s.f=f
    def write(s,b): LOG.append(('write',s.path,bytes(b))); return s.f.write(b)
    def flush(s): LOG.append(('flush',s.path)); s.f.flush()
    def close(s): LOG.append(('close',s.path)); s.f.close()
    def __enter__(s): return s
    def __exit__(s,*a): s.close()
def log_open(path,mode='r',*a,**k):
    f=real_open(path,mode,*a,**k)
    if ON[0] and ('w' in mode or 'a' in mode or '+' in mode):
        LOG.append(('open',path,mode)); return WFile(path,f)
    return f
def log_mkdir(p,*a,**k):
    if ON[0]: LOG.append(('mkdir',p))
    return real_mkdir(p,*a,**k)
def log_replace(a,b,*x,**k):
    if ON[0]: LOG.append(('replace',a,b))
    return real_replace(a,b,*x,**k)
builtins.open=log_open; os.mkdir=log_mkdir; os.replace=log_replace
def snap(root):
    out={}
    for dp,dn,fn in os.walk(root):
        for d in dn: out[os.path.relpath(os.path.join(dp,d),root)+'/']=None
        for f in fn: out[os.path.relpath(os.path.join(dp,f),root)]=real_open(os.path.join(dp,f),'rb').read()
    return out
def restore(root,s):
    shutil.rmtree(root,ignore_errors=True); os.makedirs(root)
    for k in sorted(s):
        p=os.path.join(root,k)
        if s[k] is None: os.makedirs(p,exist_ok=True)
        else:
            os.makedirs(os.path.dirname(p),exist_ok=True); real_open(p,'wb').write(s[k])
def apply(root0,root,s,ops,tear):
    restore(root,s)
    for i,op in enumerate(ops):
        p=op[1].replace(root0,root,1)
        if op[0]=='mkdir': real_mkdir(p)
        elif op[0]=='open': real_open(p,'wb').close()
        elif op[0]=='replace': real_replace(p, op[2].replace(root0,root,1))
        elif op[0]=='write':
            data=op[2]
            if i==len(ops)-1 and tear is not None: data=data[:tear]
            with real_open(p,'ab') as f: f.write(data)
def scenario(name, prep):
    global LOG, AUD
    LOG.clear(); AUD.clear()
    base=tempfile.mkdtemp(dir='/dev/shm'); root=base+'/root'; os.makedirs(root)
    mk(root,{'a.txt':'a','d/b.txt':'b'})
    prep(root)
    pre=snap(root)
    ON[0]=True; r=run(C.create,[root,'-h','md5']); ON[0]=False
    print('==',name,'create',r.exit_code,'log ops',len(LOG),'kinds',sorted({o[0] for o in LOG}))
    work=base+'/crash'
    n=0; bad={}
    for k in range(len(LOG)+1):
        ops=LOG[:k]
        tears=[None]
        if ops and ops[-1][0]=='write':
            L=len(ops[-1][2]); tears=sorted({0,1,L//2,L-1,L})
        for tear in tears:
            apply(root,work,pre,ops,tear); n+=1
            res=[]
            for cmd,args in [('info',[work]),('verify',[work]),('create',[work,'-h','md5'])]:
                rr=run(getattr(C,cmd),args); res.append(rr.exit_code)
            label=(ops[-1][0]+':'+os.path.basename(ops[-1][1]) if ops else 'start')
            bad.setdefault(tuple(res),[]).append((k,label,tear))
    print('crash states',n)
    for k,v in bad.items(): print('  ',k,len(v),v[:3])
    shutil.rmtree(base)
scenario('no history', lambda root: None)
scenario('flat 1 gen', lambda root: run(C.create,[root,'-h','md5']))
scenario('nested', lambda root: (run(C.create,[root+'/d','-h','md5']), run(C.create,[root,'-h','md5'])))
