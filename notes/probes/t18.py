from h import *
import hashlib, xxhash, re
from lxml import etree
CH="123456789ABCDEFGHJKLMNPQRSTUVWXYZabcdefghijkmnopqrstuvwxyz"
def c4enc(b):
    v=int.from_bytes(b,'big'); s=''
    while v: v,m=divmod(v,58); s=CH[m]+s
    return 'c4'+s.rjust(88,'1')
def c4dec(s):
    v=0
    for ch in s[2:]: v=v*58+CH.index(ch)
    return v.to_bytes(64,'big')
ALG={'md5':lambda b:hashlib.md5(b).digest(),'sha1':lambda b:hashlib.sha1(b).digest(),'xxh64':lambda b:xxhash.xxh64_digest(b),'xxh3':lambda b:xxhash.xxh3_64_digest(b),'xxh128':lambda b:xxhash.xxh3_128_digest(b),'c4':lambda b:hashlib.sha512(b).digest()}
def text(f,raw): return c4enc(raw) if f=='c4' else raw.hex()
def ref_dir(path,f):
    cs=[];ss=[]
    for n in os.listdir(path):
        if n in ('ascmhl','.DS_Store'): continue
        p=os.path.join(path,n)
        if os.path.isdir(p): c,s=ref_dir(p,f)
        else: c=ALG[f](open(p,'rb').read()); s=c
        cs.append(c); ss.append(ALG[f](n.encode()+s))
    # sorted by TEXT form, as the property says "in sorted order" (text vs raw order coincide?)
    cs_t=sorted(cs,key=lambda r:text(f,r)); ss_t=sorted(ss,key=lambda r:text(f,r))
    assert cs_t==sorted(cs) and ss_t==sorted(ss), 'text order != byte order'
    return ALG[f](b''.join(cs_t)), ALG[f](b''.join(ss_t))
root=tempfile.mkdtemp(dir='/dev/shm')
mk(root,{'a.txt':'a','b b.txt':'bb','d/c.txt':'c','d/e/f.txt':'f','d/e/g.txt':'','empty/':'','z/y/x/w.txt':'w'})
args=[root]
for f in ALG: args+=['-h',f]
r=run(C.create,args); print(r.exit_code)
m=[f for f in os.listdir(root+'/ascmhl') if f.endswith('.mhl')][0]
t=etree.parse(root+'/ascmhl/'+m); ns={'m':'urn:ASC:MHL:v2.0'}
bad=0;n=0
for dh in t.iterfind('.//m:directoryhash',ns):
    p=dh.find('m:path',ns).text
    for f in ALG:
        c=dh.find('m:content/m:'+f,ns).text; s=dh.find('m:structure/m:'+f,ns).text
        rc,rs=ref_dir(os.path.join(root,p),f); n+=1
        if (c,s)!=(text(f,rc),text(f,rs)): bad+=1; print('MISMATCH',p,f)
rh=t.find('.//m:roothash',ns)
for f in ALG:
    c=rh.find('m:content/m:'+f,ns).text; s=rh.find('m:structure/m:'+f,ns).text
    rc,rs=ref_dir(root,f); n+=1
    if (c,s)!=(text(f,rc),text(f,rs)): bad+=1; print('MISMATCH root',f)
print('dir hash comparisons',n,'bad',bad)
print(c4enc(hashlib.sha512(b'').digest()))
import ascmhl.hasher as H
print(H.hash_data(b'','c4'), H.hash_data(b'','xxh64'), H.hash_data(b'','xxh3'), H.hash_data(b'','xxh128'), H.hash_data(b'','xxh32'))
r=run(C.verify,[root,'-dh','-co','-h','c4']); print(r.exit_code, r.stdout[:400])
shutil.rmtree(root)
