from h import *
import time
root = tempfile.mkdtemp(dir='/dev/shm')
mk(root, {'a.txt':'a','d/b.txt':'b'})
t=time.time()
r = run(C.create, [root, '-h', 'xxh64', '-v']); show(r)
print('time', time.time()-t)
t=time.time()
for i in range(20):
    r = run(C.verify, [root])
print('verify x20', time.time()-t)
print(os.listdir(root+'/ascmhl'))
print(open(root+'/ascmhl/'+sorted(os.listdir(root+'/ascmhl'))[0]).read())
print(open(root+'/ascmhl/ascmhl_chain.xml').read())
shutil.rmtree(root)
