import os, sys, time, shutil, tempfile
from click.testing import CliRunner
import ascmhl.commands as C
from freezegun import freeze_time
def run(cmd, args, **kw):
    r = CliRunner(mix_stderr=False).invoke(cmd, args, **kw)
    return r
def show(r):
    print('exit', r.exit_code, 'exc', repr(r.exception) if r.exception and not isinstance(r.exception, SystemExit) else None)
    print(r.stdout); print('ERR:', r.stderr)
def mk(root, files):
    for p, c in files.items():
        fp = os.path.join(root, p)
        os.makedirs(os.path.dirname(fp), exist_ok=True)
        if p.endswith('/'):
            os.makedirs(fp, exist_ok=True)
        else:
            open(fp,'wb').write(c if isinstance(c, bytes) else c.encode())
