from h import *
for files in [{}, {'e/':''}, {'d/':'','d/e/':''}]:
    root=tempfile.mkdtemp(dir='/dev/shm'); mk(root,files)
    c=run(C.create,[root,'-h','md5']).exit_code
    out=[(cmd, run(getattr(C,cmd),a).exit_code) for cmd,a in [('verify',[root]),('diff',[root]),('create',[root,'-h','md5']),('verify',[root,'-dh'])]]
    print(sorted(files), 'create',c, out); shutil.rmtree(root)
