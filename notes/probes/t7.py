from h import *
import re
def fresh(files):
    root = tempfile.mkdtemp(dir='/dev/shm'); mk(root, files); return root
def pats(root, sub=''):
    d=os.path.join(root,sub,'ascmhl'); out=[]
    for f in sorted(x for x in os.listdir(d) if x.endswith('.mhl')):
        t=open(os.path.join(d,f)).read()
        out.append((f[:4], re.findall(r'<pattern>(.*?)</pattern>',t), re.findall(r'<path[^>]*>(.*?)</path>',t)))
    return out
print('--- -sf folder with ignored file inside')
root=fresh({'a.txt':'a','d/b.txt':'b','d/x.tmp':'t'})
print(run(C.create,[root,'-h','md5','-i','*.tmp']).exit_code)
r=run(C.create,[root,'-h','md5','-sf',root+'/d','-i','b.txt']); print(r.exit_code)
for p in pats(root): print(p)
print('verify', run(C.verify,[root]).exit_code, 'diff', run(C.diff,[root]).exit_code)
shutil.rmtree(root)
print('--- nested propagate')
root=fresh({'a.txt':'a','d/b.txt':'b','d/x.tmp':'t', 'd/y.bak':'y'})
print(run(C.create,[root+'/d','-h','md5','-i','*.bak']).exit_code)
print(run(C.create,[root,'-h','md5','-i','*.tmp']).exit_code)
for p in pats(root): print('root',p)
for p in pats(root,'d'): print('d',p)
print('verify', run(C.verify,[root]).exit_code, 'diff', run(C.diff,[root]).exit_code, 'verify-dh', run(C.verify,[root,'-dh']).exit_code)
print(run(C.create,[root,'-h','md5']).exit_code)
for p in pats(root): print('root',p)
for p in pats(root,'d'): print('d',p)
shutil.rmtree(root)
print('--- ignored file recorded earlier then ignored: not missing / not new')
root=fresh({'a.txt':'a','d/b.txt':'b','d/x.tmp':'t'})
print(run(C.create,[root,'-h','md5']).exit_code)
r=run(C.verify,[root,'-i','*.tmp']); print('verify -i', r.exit_code, r.stderr)
os.remove(root+'/d/x.tmp')
r=run(C.verify,[root,'-i','*.tmp']); print('verify -i removed', r.exit_code, r.stderr)
r=run(C.diff,[root,'-i','*.tmp']); print('diff -i removed', r.exit_code, r.stderr)
r=run(C.create,[root,'-h','md5','-i','*.tmp']); print('create -i removed', r.exit_code, r.stderr)
r=run(C.create,[root,'-h','md5','-i','d/']); print('create -i d/', r.exit_code, r.stderr)
for p in pats(root): print('root',p)
r=run(C.create,[root,'-h','md5','-i','d/']); print('create -i d/ again', r.exit_code, r.stderr)
shutil.rmtree(root)
