# probe: C03 / C06 / C14 oracle readings on sealed bases x single+pair mutations
from h import *
import itertools, hashlib, re
from lxml import etree
NS={'m':'urn:ASC:MHL:v2.0','d':'urn:ASC:MHL:DIRECTORY:v2.0'}
CH="123456789ABCDEFGHJKLMNPQRSTUVWXYZabcdefghijkmnopqrstuvwxyz"
def c4(b):
    v=int.from_bytes(hashlib.sha512(b).digest(),'big'); s=''
    while v: v,m=divmod(v,58); s=CH[m]+s
    return 'c4'+s.rjust(88,'1')
def snap(root):
    out={}
    for dp,dn,fn in os.walk(root):
        for d in dn:
            p=os.path.join(dp,d); st=os.lstat(p); out[os.path.relpath(p,root)+'/']=('d',st.st_mtime_ns,st.st_mode)
        for f in fn:
            p=os.path.join(dp,f); st=os.lstat(p); out[os.path.relpath(p,root)]=('f',open(p,'rb').read(),st.st_mtime_ns,st.st_mode)
    st=os.lstat(root); out['./']=('d',st.st_mtime_ns,st.st_mode); return out
def is_hist(k): return '/ascmhl/' in '/'+k or k.rstrip('/').endswith('ascmhl')
def c06_c14(pre,post,label):
    probs=[]
    for k in pre:
        if k not in post: probs.append(('removed',k)); continue
        if pre[k]!=post[k]:
            if k.endswith('.mhl'): probs.append(('manifest changed',k))
            elif not is_hist(k):
                # media: only mtime of a dir that received a NEW ascmhl folder may change
                newasc=(k.rstrip('/')+'/ascmhl/').lstrip('./')
                newasc = 'ascmhl/' if k=='./' else k+'ascmhl/'
                if not (pre[k][0]=='d' and newasc in post and newasc not in pre and pre[k][2]==post[k][2]): probs.append(('media changed',k))
    new=[k for k in post if k not in pre]
    for k in new:
        if not is_hist(k): probs.append(('stray',k))
    # per ascmhl folder: exactly one new manifest numbered max+1; chain = old + one entry with c4 of bytes
    folders={os.path.dirname(k) for k in post if k.endswith('ascmhl_chain.xml') and post[k]!=pre.get(k)}
    for f in folders:
        olds=sorted(k for k in pre if os.path.dirname(k)==f and k.endswith('.mhl'))
        news=sorted(k for k in post if os.path.dirname(k)==f and k.endswith('.mhl') and k not in pre)
        if len(news)!=1: probs.append(('new manifests',f,news)); continue
        num=int(os.path.basename(news[0])[:4]); mx=max([int(os.path.basename(o)[:4]) for o in olds] or [0])
        if num!=mx+1: probs.append(('number',f,num,mx))
        def chain(b): 
            t=etree.fromstring(b); return [(e.get('sequencenr'),e.find('d:path',NS).text,e.find('d:c4',NS).text) for e in t.iterfind('d:hashlist',NS)]
        oc=chain(pre[f+'/ascmhl_chain.xml'][1]) if f+'/ascmhl_chain.xml' in pre else []
        nc=chain(post[f+'/ascmhl_chain.xml'][1])
        if nc[:-1]!=oc: probs.append(('chain prefix',f))
        if nc[-1]!=(str(num),os.path.basename(news[0]),c4(post[news[0]][1])): probs.append(('chain last',f,nc[-1]))
    for k in new:
        if k.endswith('.mhl') and os.path.dirname(k) not in folders: probs.append(('manifest without chain update',k))
    return probs
BASES={
 'flat2gen': ({'a.txt':'a','b.txt':'b','d/c.txt':'c','e/':''}, [lambda r:[r,'-h','md5'], lambda r:[r,'-h','xxh64']]),
 'nested':   ({'a.txt':'a','A/x.txt':'x','A/B/y.txt':'y','AB/z.txt':'z','e/':''}, [lambda r:[r+'/A/B','-h','md5'], lambda r:[r+'/A','-h','md5'], lambda r:[r,'-h','md5']]),
 'ignore':   ({'a.txt':'a','t.tmp':'t','d/c.txt':'c','d/u.tmp':'u'}, [lambda r:[r,'-h','md5','-i','*.tmp']]),
}
def files_of(tree): return [k for k in tree if not k.endswith('/')]
def muts(tree):
    m=[]
    for f in files_of(tree):
        if f.endswith('.tmp'): m.append(('ign-edit',f)); m.append(('ign-del',f)); continue
        m+= [('flip',f),('append',f),('del',f),('touch',f)]
    for d in sorted({os.path.dirname(f) for f in files_of(tree)}|{''}): m.append(('add',os.path.join(d,'new.bin')))
    for d in [k for k in tree if k.endswith('/')]: m.append(('rmdir',d.rstrip('/')))
    if any(f.endswith('.tmp') for f in tree): m.append(('ign-add','d/v.tmp'))
    return m
def apply(root,mu):
    k,p=mu; fp=os.path.join(root,p)
    if k in('flip','ign-edit'): b=open(fp,'rb').read(); open(fp,'wb').write(bytes([b[0]^1])+b[1:] if b else b'x')
    elif k=='append': open(fp,'ab').write(b'+')
    elif k in('del','ign-del'): os.remove(fp)
    elif k=='touch': os.utime(fp,(1e9,1e9))
    elif k in('add','ign-add'): os.makedirs(os.path.dirname(fp),exist_ok=True); open(fp,'wb').write(b'new')
    elif k=='rmdir': os.rmdir(fp)
CLS={'flip':'alt','append':'alt','del':'rem','rmdir':'rem','add':'new','touch':None,'ign-edit':None,'ign-del':None,'ign-add':None}
CODE={'alt':11,'rem':10,'new':21}
def expect(cmd,classes):
    cs={c for c in classes if c}
    if cmd=='create': cs-={'new'}
    if cmd=='diff': cs-={'alt'}
    if not cs: return {0}
    if 'alt' in cs: return {11}
    return {CODE[c] for c in cs}
n=0; alarms=[]
for bname,(tree,gens) in BASES.items():
    ms=muts(tree)
    combos=[()]+[(m,) for m in ms]+[c for c in itertools.combinations(ms,2) if c[0][1]!=c[1][1] and not (c[0][0]=='del' and False)]
    for combo in combos:
        # skip pairs that conflict (add into a dir that is removed etc.)
        if any(m[0]=='rmdir' for m in combo) and any(m[0] in('add','ign-add') and m[1].startswith(tuple(x[1] for x in combo if x[0]=='rmdir')) for m in combo): continue
        root=tempfile.mkdtemp(dir='/dev/shm')+'/root'; os.makedirs(root); mk(root,tree)
        for g in gens: assert run(C.create,g(root)).exit_code==0
        for mu in combo: apply(root,mu)
        classes=[CLS[m[0]] for m in combo]
        for cmd in ['verify','diff','create']:
            pre=snap(root)
            r=run(getattr(C,cmd),[root]+(['-h','md5'] if cmd=='create' else [])); n+=1
            post=snap(root)
            exp=expect(cmd,classes)
            out=r.stdout+r.stderr
            if r.exit_code not in exp: alarms.append((bname,combo,cmd,'exit',r.exit_code,exp))
            for m in combo:
                c=CLS[m[0]]
                named = m[1] in out
                should = (c=='alt' and cmd in('verify','create')) or (c=='rem') or (c=='new' and cmd in('verify','diff'))
                if should and not named: alarms.append((bname,combo,cmd,'not named',m[1]))
            if cmd!='create':
                if pre!=post: alarms.append((bname,combo,cmd,'side effect'))
            else:
                p=c06_c14(pre,post,cmd)
                if p: alarms.append((bname,combo,cmd,'c06/c14',p[:2]))
        shutil.rmtree(os.path.dirname(root))
print('command runs',n,'alarms',len(alarms))
from collections import Counter
print(Counter((a[0],a[2],a[3]) for a in alarms).most_common(20))
for a in alarms:
    if a[0]=='ignore': print(a)
