# probe: C12 oracle readings (pattern accumulation, nested propagation, never opened/recorded/hashed)
from h import *
import itertools, sys, fnmatch
from lxml import etree
NS={'m':'urn:ASC:MHL:v2.0'}
OPENED=[]; ON=[False]
def hook(ev,a):
    if ON[0] and ev=='open' and isinstance(a[0],str): OPENED.append(a[0])
sys.addaudithook(hook)
def match(rel,is_dir,pats):
    parts=rel.split('/')
    for p in pats:
        if p.endswith('/'):
            name=p[:-1]
            comps=parts if is_dir else parts[:-1]
            if name in comps: return True
        else:
            if any(fnmatch.fnmatchcase(c,p) for c in parts): return True
    return False
def gens(root,sub=''):
    d=os.path.join(root,sub,'ascmhl'); out=[]
    for f in sorted(x for x in os.listdir(d) if x.endswith('.mhl')):
        t=etree.parse(os.path.join(d,f))
        out.append(([e.text for e in t.iterfind('.//m:ignore/m:pattern',NS)],[e.text for e in t.iterfind('m:hashes/*/m:path',NS)]))
    return out
TREE={'a.txt':'a','x.tmp':'t','sub/in.txt':'i','sub/y.tmp':'t','d/b.txt':'b','d/x.tmp':'t','d/sub/k.txt':'k'}
PATS=['x.tmp','*.tmp','sub/','sub']
DEFAULT=['.DS_Store','ascmhl','ascmhl/']
alarms=[]; n=0
seqs=[s for k in (1,2,3) for s in itertools.product([(),('x.tmp',),('*.tmp',),('sub/',),('sub',),('*.tmp','*.tmp'),('sub','x.tmp')],repeat=k)]
for seq in seqs:
    root=tempfile.mkdtemp(dir='/dev/shm'); mk(root,TREE)
    eff=[]
    for gi,new in enumerate(seq):
        args=[root,'-h','md5']
        for p in new: args+=['-i',p]
        OPENED.clear(); ON[0]=True; r=run(C.create,args); ON[0]=False; n+=1
        prev=eff[:] ; 
        for p in new:
            if p not in eff: eff.append(p)
        g=gens(root)
        pats,paths=g[-1]
        user=[p for p in pats if p not in DEFAULT]
        if r.exit_code!=0: alarms.append((seq,gi,'exit',r.exit_code))
        if gi>0 and pats[:len(g[-2][0])]!=g[-2][0]: alarms.append((seq,gi,'prefix'))
        if len(set(pats))!=len(pats): alarms.append((seq,gi,'dup',pats))
        if not set(new)<=set(pats): alarms.append((seq,gi,'new pattern missing',pats))
        # recorded set vs expectation
        exp=set()
        for f in TREE:
            parts=f.split('/')
            for i in range(1,len(parts)+1):
                rel='/'.join(parts[:i]); isd=i<len(parts)
                # excluded if it or any ancestor matched
                if any(match('/'.join(parts[:j]), j<len(parts), eff) for j in range(1,i+1)): break
                exp.add(rel)
        if set(paths)!=exp: alarms.append((seq,gi,'records',sorted(set(paths)^exp)))
        for f in TREE:
            if match(f,False,eff) and os.path.join(root,f) in OPENED: alarms.append((seq,gi,'opened ignored',f))
        for cmd in ['verify','diff']:
            rr=run(getattr(C,cmd),[root]); n+=1
            if rr.exit_code!=0: alarms.append((seq,gi,cmd,rr.exit_code))
    shutil.rmtree(root)
print('runs',n,'alarms',len(alarms))
from collections import Counter
print(Counter(a[2] for a in alarms))
seen=set()
for a in alarms:
    if a[2] not in seen: seen.add(a[2]); print(a)
