from h import *
import re
def fresh(files):
    root = tempfile.mkdtemp(dir='/dev/shm'); mk(root, files); return root
def recs(root):
    out={}
    for dp,dn,fn in os.walk(root):
        if os.path.basename(dp)=='ascmhl':
            for f in sorted(fn):
                if f.endswith('.mhl'):
                    t=open(os.path.join(dp,f)).read()
                    out[os.path.relpath(os.path.join(dp,f),root)]=re.findall(r'<path[^>]*>(.*?)</path>|<previousPath>(.*?)</previousPath>',t)
    return out
print('--- trailing slash / relative')
root=fresh({'a.txt':'a','d/b.txt':'b'})
r=run(C.create,[root+'/','-h','md5']); print('create root/',r.exit_code, sorted(os.listdir(root+'/ascmhl')))
r=run(C.verify,[root+'/']); print('verify root/',r.exit_code, r.stderr[:200])
cwd=os.getcwd(); os.chdir(root)
r=run(C.create,['.','-h','md5']); print('create .',r.exit_code, r.stderr[:300], sorted(os.listdir(root+'/ascmhl')))
r=run(C.verify,['.']); print('verify .',r.exit_code, r.stderr[:200])
r=run(C.diff,['.']); print('diff .',r.exit_code, r.stderr[:200])
os.chdir(os.path.dirname(root))
r=run(C.create,[os.path.basename(root),'-h','md5']); print('create relname',r.exit_code, r.stderr[:300])
r=run(C.create,[os.path.basename(root),'-h','md5','-sf',os.path.basename(root)+'/a.txt']); print('create relname -sf rel',r.exit_code, r.stderr[:300])
os.chdir(cwd)
for k,v in recs(root).items(): print(k,v)
shutil.rmtree(root)
print('--- chained renames across generations')
root=fresh({'a.txt':'a','b.txt':'b'})
print(run(C.create,[root,'-h','md5']).exit_code)
os.rename(root+'/a.txt',root+'/a2.txt'); r=run(C.create,[root,'-h','md5','-dr']); print('dr1',r.exit_code,r.stderr[:200])
os.rename(root+'/a2.txt',root+'/a3.txt'); r=run(C.create,[root,'-h','md5','-dr']); print('dr2',r.exit_code,r.stderr[:300])
for cmd,args in [('verify',[root]),('diff',[root]),('create',[root,'-h','md5']),('verify',[root,'-dh'])]:
    r=run(getattr(C,cmd),args); print(cmd, r.exit_code, r.stderr.strip().replace('\n',' | ')[:300])
for k,v in recs(root).items(): print(k,v)
shutil.rmtree(root)
print('--- rename back (a->a2->a)')
root=fresh({'a.txt':'a','b.txt':'b'})
print(run(C.create,[root,'-h','md5']).exit_code)
os.rename(root+'/a.txt',root+'/a2.txt'); r=run(C.create,[root,'-h','md5','-dr']); print('dr1',r.exit_code,r.stderr[:200])
os.rename(root+'/a2.txt',root+'/a.txt'); r=run(C.create,[root,'-h','md5','-dr']); print('dr2',r.exit_code,r.stderr[:300])
for cmd,args in [('verify',[root]),('diff',[root]),('create',[root,'-h','md5'])]:
    r=run(getattr(C,cmd),args); print(cmd, r.exit_code, r.stderr.strip().replace('\n',' | ')[:300])
shutil.rmtree(root)
