from h import *
def fresh(files):
    root = tempfile.mkdtemp(dir='/dev/shm'); mk(root, files); return root
def after(label, root):
    out=[]
    for cmd,args in [('info',[root]),('verify',[root]),('create',[root,'-h','md5'])]:
        r=run(getattr(C,cmd),args); out.append((cmd,r.exit_code,type(r.exception).__name__ if r.exception and not isinstance(r.exception,SystemExit) else None))
    print(label,out)
# 1: ascmhl dir created, nothing else
root=fresh({'a.txt':'a'}); os.mkdir(root+'/ascmhl'); after('mkdir-only',root); shutil.rmtree(root)
# 2: half-written manifest gen2 (unchained)
root=fresh({'a.txt':'a'}); run(C.create,[root,'-h','md5'])
m=[f for f in os.listdir(root+'/ascmhl') if f.endswith('.mhl')][0]; b=open(root+'/ascmhl/'+m,'rb').read()
open(root+'/ascmhl/'+m.replace('0001','0002'),'wb').write(b[:len(b)//2]); after('partial-gen2-manifest',root); shutil.rmtree(root)
# 3: complete gen2 manifest, unchained
root=fresh({'a.txt':'a'}); run(C.create,[root,'-h','md5'])
open(root+'/ascmhl/'+m.replace('0001','0002'),'wb').write(b); after('complete-unchained-gen2',root); print(sorted(os.listdir(root+'/ascmhl'))); shutil.rmtree(root)
# 4: chain truncated to zero / half
root=fresh({'a.txt':'a'}); run(C.create,[root,'-h','md5'])
open(root+'/ascmhl/ascmhl_chain.xml','wb').close(); after('chain-empty',root); shutil.rmtree(root)
root=fresh({'a.txt':'a'}); run(C.create,[root,'-h','md5'])
c=open(root+'/ascmhl/ascmhl_chain.xml','rb').read(); open(root+'/ascmhl/ascmhl_chain.xml','wb').write(c[:len(c)//2]); after('chain-half',root); shutil.rmtree(root)
