from h import *
import importlib, requests, threading, time, json
class Resp:
    def __init__(s, status=200, body='{"tag_name":"v9.9.9"}'): s.status_code=status; s.body=body
    def raise_for_status(s):
        if s.status_code>=400: raise requests.exceptions.HTTPError('x')
    def json(s):
        try: return json.loads(s.body)
        except Exception as e: raise requests.exceptions.JSONDecodeError(str(e), s.body, 0)
root=tempfile.mkdtemp(dir='/dev/shm'); mk(root,{'a.txt':'a'})
def trial(label, behave):
    orig=requests.get
    requests.get=behave
    try:
        import ascmhl.cli.update, ascmhl.cli.ascmhl, ascmhl.cli.ascmhl_debug
        importlib.reload(ascmhl.cli.update); importlib.reload(ascmhl.cli.ascmhl); importlib.reload(ascmhl.cli.ascmhl_debug)
        t=time.time()
        r=run(ascmhl.cli.ascmhl_debug.mhldebugtool_cli,['hash',root+'/a.txt','-h','md5'])
        dt=time.time()-t
        print(label,'exit',r.exit_code,'dt %.2f'%dt,'stdout',repr(r.stdout),'stderr',repr(r.stderr[:80]))
    finally: requests.get=orig
trial('newer', lambda u,**k: Resp())
trial('older', lambda u,**k: Resp(body='{"tag_name":"v0.0.1"}'))
trial('pre', lambda u,**k: Resp(body='{"tag_name":"v9.0.0-alpha.2"}'))
trial('http500', lambda u,**k: Resp(status=500))
trial('nonjson', lambda u,**k: Resp(body='<html>'))
trial('listjson', lambda u,**k: Resp(body='[1]'))
trial('notag', lambda u,**k: Resp(body='{}'))
trial('garbagever', lambda u,**k: Resp(body='{"tag_name":"banana"}'))
def conn(u,**k): raise requests.exceptions.ConnectionError('refused')
trial('connerr', conn)
def slow(u,**k): time.sleep(0.5); return Resp()
trial('slow0.5', slow)
def hang(u,**k): time.sleep(30); return Resp()
trial('hang', hang)
def oserr(u,**k): raise OSError('boom')
trial('oserror', oserr)
shutil.rmtree(root)
