from h import *
import re, time, datetime
from freezegun import freeze_time
def fresh(files):
    root = tempfile.mkdtemp(dir='/dev/shm'); mk(root, files); return root
def go(tz, now_utc, mtime_utc):
    os.environ['TZ']=tz; time.tzset()
    root=fresh({'a.txt':'a'})
    ts=datetime.datetime.strptime(mtime_utc,'%Y-%m-%d %H:%M:%S').replace(tzinfo=datetime.timezone.utc).timestamp()
    os.utime(root+'/a.txt',(ts,ts))
    with freeze_time(now_utc, tz_offset=0):
        r=run(C.create,[root,'-h','md5'])
    m=[f for f in os.listdir(root+'/ascmhl') if f.endswith('.mhl')][0]
    t=open(root+'/ascmhl/'+m).read()
    print(tz, 'now', now_utc, 'mtime', mtime_utc, r.exit_code, m)
    print('   creationdate', re.findall(r'<creationdate>(.*?)<',t), 'lastmod', re.findall(r'lastmodificationdate="(.*?)"',t)[:1], 'hashdate', re.findall(r'hashdate="(.*?)"',t)[:1])
    shutil.rmtree(root)
go('UTC','2020-01-15 13:00:00','2019-07-01 10:00:00')
go('Europe/Berlin','2020-01-15 13:00:00','2019-07-01 10:00:00')
go('Europe/Berlin','2020-07-15 13:00:00','2019-01-01 10:00:00')
go('America/New_York','2020-01-15 13:00:00','2019-07-01 10:00:00')
