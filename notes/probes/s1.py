# spike: virtual clock seam by rebinding datetime/time in ascmhl.* module namespaces; listing-order seam
import sys, os, time as _time, datetime as _dt, types, itertools, platform
from h import *
import ascmhl, ascmhl.utils, ascmhl.hashlist, ascmhl.history, ascmhl.commands, ascmhl.generator
NOW=[0.0]
class FakeDT(_dt.datetime):
    @classmethod
    def now(cls, tz=None):
        r=_dt.datetime.fromtimestamp(NOW[0], tz)
        return cls(r.year,r.month,r.day,r.hour,r.minute,r.second,r.microsecond,r.tzinfo,fold=r.fold)
dt_shim=types.ModuleType('datetime'); dt_shim.__dict__.update(_dt.__dict__); dt_shim.datetime=FakeDT
tm_shim=types.ModuleType('time'); tm_shim.__dict__.update(_time.__dict__)
tm_shim.localtime=lambda s=None: _time.localtime(NOW[0] if s is None else s)
tm_shim.time=lambda: NOW[0]
n=0
for name,mod in list(sys.modules.items()):
    if name=='ascmhl' or name.startswith('ascmhl.'):
        for k,v in list(vars(mod).items()):
            if v is _dt: setattr(mod,k,dt_shim); n+=1
            elif v is _dt.datetime: setattr(mod,k,FakeDT); n+=1
            elif v is _time: setattr(mod,k,tm_shim); n+=1
print('rebound',n)
platform.node=lambda: 'verifhost'
real_listdir, real_scandir = os.listdir, os.scandir
ORDER={'mode':'sorted'}
def perm(names):
    names=sorted(names)
    return names if ORDER['mode']=='sorted' else list(reversed(names))
os.listdir=lambda p='.': perm(real_listdir(p))
class _SD:
    def __init__(s,p): 
        with real_scandir(p) as it: s.e=sorted(it,key=lambda e:e.name)
        if ORDER['mode']!='sorted': s.e.reverse()
    def __iter__(s): return s
    def __next__(s):
        if not s.e: raise StopIteration
        return s.e.pop(0)
    def __enter__(s): return s
    def __exit__(s,*a): pass
    def close(s): pass
os.scandir=lambda p='.': _SD(p)
def build(base):
    root=os.path.join(base,'root'); os.makedirs(root)
    mk(root,{'a.txt':'a','A/x.txt':'x','AB/y.txt':'y','e.txt':''})
    for dp,dn,fn in os.walk(root):
        for x in dn+fn: os.utime(os.path.join(dp,x),(1e9,1e9))
    os.utime(root,(1e9,1e9)); return root
def snap(root):
    return {os.path.relpath(os.path.join(dp,f),root):open(os.path.join(dp,f),'rb').read() for dp,dn,fn in os.walk(root) for f in fn if 'ascmhl' in dp}
def scenario(mode, tz):
    os.environ['TZ']=tz; _time.tzset(); ORDER['mode']=mode
    base=tempfile.mkdtemp(dir='/dev/shm'); root=build(base)
    NOW[0]=1593600000.25  # 2020-07-01T10:40:00.25Z
    for sub in ['A','AB']:
        r=run(C.create,[root+'/'+sub,'-h','md5']); NOW[0]+=1
    r=run(C.create,[root,'-h','md5']); assert r.exit_code==0,(r.exception,r.stderr)
    s=snap(root); shutil.rmtree(base); return s
a=scenario('sorted','UTC'); b=scenario('sorted','UTC'); c=scenario('rev','UTC')
print('deterministic', a==b, 'order-independent', a==c)
for k in a:
    if a[k]!=c.get(k): 
        import difflib
        print(k); print('\n'.join(list(difflib.unified_diff(a[k].decode().splitlines(),c[k].decode().splitlines(),lineterm='',n=0))[:12]))
d=scenario('sorted','Europe/Berlin')
import re
k=[k for k in d if k.startswith('ascmhl/0001')][0]; print(k); print(re.findall(r'<creationdate>.*?<|lastmodificationdate="[^"]*"|hashdate="[^"]*"', d[k].decode())[:4])
