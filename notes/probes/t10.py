from h import *
import re
def fresh(files):
    root = tempfile.mkdtemp(dir='/dev/shm'); mk(root, files); return root
root=fresh({'a.txt':'a','d/b.txt':'b','d/e/c.txt':'c'})
print(run(C.create,[root+'/d','-h','md5']).exit_code, run(C.create,[root,'-h','xxh64']).exit_code)
open(root+'/d/b.txt','w').write('B')
print(run(C.create,[root,'-h','xxh64','-h','md5']).exit_code)
r=run(C.info,[root]); show(r)
r=run(C.info,[root,'-sf',root+'/a.txt']); show(r)
r=run(C.info,[root,'-sf',root+'/d/b.txt']); print('info root -sf d/b.txt'); show(r)
r=run(C.info,['-sf',root+'/d/b.txt']); print('info -sf d/b.txt (no root)'); show(r)
r=run(C.info,['-sf',root+'/d/e/c.txt']); print('info -sf d/e/c.txt (no root)'); show(r)
r=run(C.info,['-sf',root+'/a.txt', '-sf', root+'/d/b.txt']); print('info -sf two files'); show(r)
root2=fresh({'a.txt':'a'})
r=run(C.info,[root2]); print('no history'); show(r)
r=run(C.info,['-sf',root2+'/a.txt']); print('no history -sf'); show(r)
r=run(C.info,[root2, '-sf',root2+'/a.txt']); print('no history root -sf'); show(r)
shutil.rmtree(root); shutil.rmtree(root2)
