from h import *
import itertools, hashlib
from lxml import etree
NS={'m':'urn:ASC:MHL:v2.0'}
CH="123456789ABCDEFGHJKLMNPQRSTUVWXYZabcdefghijkmnopqrstuvwxyz"
def c4(b):
    v=int.from_bytes(hashlib.sha512(b).digest(),'big'); s=''
    while v: v,m=divmod(v,58); s=CH[m]+s
    return 'c4'+s.rjust(88,'1')
FILES={'r.txt':'r','A/a.txt':'a','AB/ab.txt':'ab','A/B/b.txt':'b','A/B/C/c.txt':'c'}
def manifests(root):
    out={}
    for dp,dn,fn in os.walk(root):
        if os.path.basename(dp)=='ascmhl':
            for f in fn:
                if f.endswith('.mhl'): out[os.path.relpath(os.path.join(dp,f),root)]=open(os.path.join(dp,f),'rb').read()
    return out
def check(roots, order, mode):
    root=tempfile.mkdtemp(dir='/dev/shm'); mk(root,FILES)
    for sub in order:
        assert run(C.create,[os.path.join(root,sub),'-h','md5']).exit_code==0
    before=manifests(root)
    if mode=='folder': r=run(C.create,[root,'-h','md5'])
    else: r=run(C.create,[root,'-h','md5','-sf',os.path.join(root,mode)])
    after=manifests(root)
    new={k:v for k,v in after.items() if k not in before}
    problems=[]
    if r.exit_code!=0: problems.append(('exit',r.exit_code,repr(r.exception)))
    hist_roots=sorted(set(roots)|{''})
    def owner(p):
        best=''
        for h in hist_roots:
            if h and (p==h or p.startswith(h+'/')) and len(h)>len(best): best=h
        return best
    # expected records per history
    exp={h:set() for h in hist_roots}
    allpaths=set(FILES)
    if mode=='folder':
        for f in FILES:
            parts=f.split('/')
            for i in range(1,len(parts)): allpaths.add('/'.join(parts[:i]))
        for p in allpaths:
            o=owner(p)
            if p==o:   # nested root: appears in parent as dir entry
                par=owner(os.path.dirname(p)) if os.path.dirname(p) else ''
                # parent = deepest history containing p strictly
                cands=[h for h in hist_roots if h!=p and (h=='' or p.startswith(h+'/'))]
                par=max(cands,key=len)
                exp[par].add(os.path.relpath(p,par) if par else p)
            else:
                exp[o].add(os.path.relpath(p,o) if o else p)
    else:
        o=owner(mode); exp[o].add(os.path.relpath(mode,o) if o else mode)
    got={h:None for h in hist_roots}
    for k,v in new.items():
        h=os.path.dirname(os.path.dirname(k))
        t=etree.fromstring(v)
        paths=[e.text for e in t.iterfind('m:hashes/*/m:path',NS)]
        if got[h] is not None: problems.append(('two new manifests in',h))
        got[h]=paths
        if len(paths)!=len(set(paths)): problems.append(('dup',h,paths))
        # references
        for ref in t.iterfind('m:references/m:hashlistreference',NS):
            rp=ref.find('m:path',NS).text; rc=ref.find('m:c4',NS).text
            full=os.path.normpath(os.path.join(h,rp))
            if full not in new: problems.append(('ref to non-new',h,rp))
            elif c4(after[full])!=rc: problems.append(('ref c4 mismatch',h,rp))
    for h in hist_roots:
        e=exp[h]
        if mode=='folder': want=True
        else: want = (owner(mode)==h) or (h=='' or owner(mode).startswith(h+'/')) and (h=='' or mode.startswith(h+'/'))
        if want and got[h] is None: problems.append(('missing gen in',h))
        if not want and got[h] is not None: problems.append(('unexpected gen in',h,got[h]))
        if got[h] is not None and set(got[h])!=e: problems.append(('records',h,sorted(got[h]),sorted(e)))
    shutil.rmtree(root)
    return problems
cands=['A','AB','A/B','A/B/C']
n=0;bad=0
for k in range(0,4):
    for roots in itertools.combinations(cands,k):
        for order in itertools.permutations(roots):
            for mode in ['folder','r.txt','A/a.txt','A/B/C/c.txt','AB/ab.txt']:
                p=check(roots,order,mode); n+=1
                if p: bad+=1; print(roots,order,mode,p[:3])
print('scenarios',n,'bad',bad)
